#!/bin/sh
# Build the fact extractor and warm the dependency cache (offline). Safe to re-run.
set -e
cd "$(dirname "$0")"
export CARGO_NET_OFFLINE=true
(cd driver && cargo build --offline --quiet)
python3 -c "
import sys
sys.path.insert(0,'.')
from corrolint import extract as ex
try:
    d, dig, fresh, w = ex.extract()
    print('facts:', d, 'fresh' if fresh else 'memoised', '%.1fs' % w)
    print('fixtures:', ex.extract_fixtures())
except ex.Broken as e:
    print('CHECK-BROKEN:', e); sys.exit(2)
"
