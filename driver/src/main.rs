//! corrolint-driver: a rustc wrapper that dumps type-checked MIR facts (mir_promoted:
//! before borrowck, drop elaboration and coroutine lowering) of every body of a
//! workspace crate as JSON lines, then lets compilation continue normally.
//!
//! Used as RUSTC_WORKSPACE_WRAPPER: argv[1] is the real rustc path and is dropped.
//! Output: $CORROLINT_OUT/<crate>-<pid>.jsonl, written once per process.
#![feature(rustc_private)]
#![allow(clippy::all)]

extern crate rustc_abi;
extern crate rustc_driver;
extern crate rustc_hir;
extern crate rustc_interface;
extern crate rustc_middle;
extern crate rustc_session;
extern crate rustc_span;

mod json;

use json::J;
use rustc_driver::{Callbacks, Compilation};
use rustc_hir::def::DefKind;
use rustc_hir::def_id::{DefId, LocalDefId, LOCAL_CRATE};
use rustc_middle::mir::{
    self, AggregateKind, BasicBlockData, Body, Const, ConstValue, Operand, Place, ProjectionElem,
    Rvalue, StatementKind, TerminatorKind,
};
use rustc_middle::ty::print::{with_crate_prefix, with_no_trimmed_paths, with_no_visible_paths};
use rustc_middle::ty::{self, Instance, Ty, TyCtxt, TypeVisitableExt, TypingEnv};
use rustc_span::Span;
use std::collections::HashSet as BTreeSet;
use std::io::Write;

struct Dump {
    out_dir: String,
}

thread_local! {
    static CRATE: std::cell::RefCell<String> = const { std::cell::RefCell::new(String::new()) };
}

/// canonical printing: real definition paths (no re-export "visible" paths, no trimming),
/// local items prefixed with the crate's own name (rustc prints `crate::`, replaced here).
macro_rules! canon {
    ($e:expr) => {
        fix_crate(with_no_visible_paths!(with_no_trimmed_paths!(with_crate_prefix!($e))))
    };
}

fn fix_crate(s: String) -> String {
    if !s.contains("crate::") {
        return s;
    }
    let name = CRATE.with(|c| c.borrow().clone());
    let b = s.as_bytes();
    let mut out = String::with_capacity(s.len() + 16);
    let mut i = 0;
    while i < b.len() {
        if s[i..].starts_with("crate::") && (i == 0 || !(b[i - 1].is_ascii_alphanumeric() || b[i - 1] == b'_')) {
            out.push_str(&name);
            out.push_str("::");
            i += 7;
        } else {
            let ch = s[i..].chars().next().unwrap();
            out.push(ch);
            i += ch.len_utf8();
        }
    }
    out
}

fn tystr<'tcx>(ty: Ty<'tcx>) -> String {
    canon!(ty.to_string())
}

fn defstr<'tcx>(tcx: TyCtxt<'tcx>, did: DefId) -> String {
    canon!(tcx.def_path_str(did))
}

/// Unique id of an item: canonical def path including the crate name
fn body_id<'tcx>(tcx: TyCtxt<'tcx>, did: DefId) -> String {
    defstr(tcx, did)
}

fn span_info<'tcx>(tcx: TyCtxt<'tcx>, span: Span) -> (String, usize, Vec<String>) {
    let sm = tcx.sess.source_map();
    let mut macs = Vec::new();
    if span.from_expansion() {
        for ed in span.macro_backtrace().take(6) {
            match ed.kind {
                rustc_span::ExpnKind::Macro(_, name) => macs.push(name.to_string()),
                rustc_span::ExpnKind::Desugaring(d) => macs.push(format!("desugar:{:?}", d)),
                rustc_span::ExpnKind::AstPass(_) => macs.push("astpass".to_string()),
                rustc_span::ExpnKind::Root => {}
            }
        }
    }
    let cs = span.source_callsite();
    if cs.is_dummy() {
        return (String::new(), 0, macs);
    }
    let loc = sm.lookup_char_pos(cs.lo());
    let file = match &loc.file.name {
        rustc_span::FileName::Real(r) => match r.local_path() {
            Some(p) => p.to_string_lossy().to_string(),
            None => format!("{:?}", r),
        },
        other => format!("{:?}", other),
    };
    (file, loc.line, macs)
}

struct Cx<'a, 'tcx> {
    tcx: TyCtxt<'tcx>,
    body: &'a Body<'tcx>,
    def: LocalDefId,
    named_consts: &'a mut BTreeSet<DefId>,
    adts: &'a mut BTreeSet<DefId>,
    n_calls: usize,
    n_yields: usize,
}

impl<'a, 'tcx> Cx<'a, 'tcx> {
    fn place(&mut self, p: &Place<'tcx>) -> J {
        let tcx = self.tcx;
        let mut v = vec![J::Int(p.local.as_usize() as i128)];
        let mut pty = mir::PlaceTy::from_ty(self.body.local_decls[p.local].ty);
        for elem in p.projection.iter() {
            let j = match elem {
                ProjectionElem::Deref => J::s("*"),
                ProjectionElem::Field(f, fty) => {
                    let mut name = String::new();
                    match pty.ty.kind() {
                        ty::Adt(adt, _) => {
                            let vidx = pty.variant_index.unwrap_or(rustc_abi::FIRST_VARIANT);
                            if adt.is_enum() || adt.is_struct() || adt.is_union() {
                                if let Some(vd) = adt.variants().get(vidx) {
                                    if let Some(fd) = vd.fields.get(f) {
                                        name = fd.name.to_string();
                                    }
                                }
                            }
                            if adt.did().is_local() {
                                self.adts.insert(adt.did());
                            }
                        }
                        ty::Closure(cdid, _) | ty::Coroutine(cdid, _) | ty::CoroutineClosure(cdid, _) => {
                            if let Some(l) = cdid.as_local() {
                                let caps = tcx.closure_captures(l);
                                if let Some(c) = caps.get(f.as_usize()) {
                                    name = c.to_symbol().to_string();
                                }
                            }
                        }
                        _ => {}
                    }
                    let _ = fty;
                    J::Arr(vec![J::s("f"), J::Int(f.as_usize() as i128), J::Str(name)])
                }
                ProjectionElem::Downcast(sym, vidx) => J::Arr(vec![
                    J::s("d"),
                    J::Str(sym.map(|s| s.to_string()).unwrap_or_default()),
                    J::Int(vidx.as_usize() as i128),
                ]),
                ProjectionElem::Index(l) => J::Arr(vec![J::s("i"), J::Int(l.as_usize() as i128)]),
                ProjectionElem::ConstantIndex { offset, from_end, .. } => {
                    J::Arr(vec![J::s("ci"), J::Int(offset as i128), J::Bool(from_end)])
                }
                ProjectionElem::Subslice { from, to, from_end } => {
                    J::Arr(vec![J::s("ss"), J::Int(from as i128), J::Int(to as i128), J::Bool(from_end)])
                }
                ProjectionElem::OpaqueCast(_) => J::s("oc"),
                ProjectionElem::UnwrapUnsafeBinder(_) => J::s("ub"),
            };
            v.push(j);
            pty = pty.projection_ty(tcx, elem);
        }
        J::Arr(v)
    }

    fn konst(&mut self, c: &Const<'tcx>) -> J {
        let tcx = self.tcx;
        let ty = c.ty();
        let mut o = vec![("t", J::Str(tystr(ty)))];
        match ty.kind() {
            ty::FnDef(did, args) => {
                o.push(("fn", J::Str(body_id(tcx, *did))));
                o.push(("fn_inst", J::Str(canon!(tcx.def_path_str_with_args(*did, args)))));
                // resolve (e.g. trait method passed as a value)
                if let Ok(Some(inst)) = Instance::try_resolve(
                    tcx,
                    TypingEnv::post_analysis(tcx, self.def.to_def_id()),
                    *did,
                    args,
                ) {
                    let rd = inst.def_id();
                    if rd != *did {
                        o.push(("fn_res", J::Str(body_id(tcx, rd))));
                    }
                }
                return J::obj(o);
            }
            ty::Closure(did, _) | ty::Coroutine(did, _) | ty::CoroutineClosure(did, _) => {
                o.push(("closure", J::Str(body_id(tcx, *did))));
                return J::obj(o);
            }
            _ => {}
        }
        match c {
            Const::Val(cv, ty) => self.const_val(cv, *ty, &mut o),
            Const::Unevaluated(uv, _) => {
                if let Some(p) = uv.promoted {
                    o.push(("promoted", J::Int(p.as_usize() as i128)));
                } else {
                    o.push(("named", J::Str(body_id(tcx, uv.def))));
                    if uv.args.is_empty() || !uv.args.iter().any(|a| a.as_type().map_or(false, |t| t.has_param())) {
                        match tcx.def_kind(uv.def) {
                            DefKind::Const | DefKind::AssocConst => {
                                self.named_consts.insert(uv.def);
                            }
                            _ => {}
                        }
                    }
                }
            }
            Const::Ty(_, ct) => {
                if let Some(v) = ct.try_to_value() {
                    if let Some(si) = v.valtree.try_to_scalar_int() {
                        push_scalar_int(si, ty, &mut o);
                    } else if let Some(bytes) = v.try_to_raw_bytes(tcx) {
                        match std::str::from_utf8(bytes) {
                            Ok(s) if is_strish(ty) => o.push(("s", J::Str(s.to_string()))),
                            _ => o.push(("bytes", J::Arr(bytes.iter().take(4096).map(|b| J::Int(*b as i128)).collect()))),
                        }
                    }
                } else {
                    o.push(("tyconst", J::Str(format!("{:?}", ct))));
                }
            }
        }
        J::obj(o)
    }

    fn const_val(&mut self, cv: &ConstValue, ty: Ty<'tcx>, o: &mut Vec<(&'static str, J)>) {
        let tcx = self.tcx;
        match cv {
            ConstValue::Scalar(s) => {
                if let mir::interpret::Scalar::Int(si) = s {
                    push_scalar_int(*si, ty, o);
                } else {
                    o.push(("ptr", J::Bool(true)));
                }
            }
            ConstValue::ZeroSized => {
                o.push(("zst", J::Bool(true)));
            }
            ConstValue::Slice { .. } => {
                if let Some(bytes) = cv.try_get_slice_bytes_for_diagnostics(tcx) {
                    match std::str::from_utf8(bytes) {
                        Ok(s) if is_strish(ty) => o.push(("s", J::Str(s.to_string()))),
                        _ => o.push((
                            "bytes",
                            J::Arr(bytes.iter().take(4096).map(|b| J::Int(*b as i128)).collect()),
                        )),
                    }
                }
            }
            ConstValue::Indirect { .. } => {
                o.push(("indirect", J::Bool(true)));
            }
        }
    }

    fn operand(&mut self, op: &Operand<'tcx>) -> J {
        match op {
            Operand::Copy(p) => J::Arr(vec![J::s("c"), self.place(p)]),
            Operand::Move(p) => J::Arr(vec![J::s("m"), self.place(p)]),
            Operand::Constant(c) => J::Arr(vec![J::s("k"), self.konst(&c.const_)]),
        }
    }

    fn rvalue(&mut self, rv: &Rvalue<'tcx>) -> J {
        let tcx = self.tcx;
        match rv {
            Rvalue::Use(op) => J::Arr(vec![J::s("use"), self.operand(op)]),
            Rvalue::Repeat(op, _) => J::Arr(vec![J::s("rep"), self.operand(op)]),
            Rvalue::Ref(_, bk, p) => {
                let k = match bk {
                    mir::BorrowKind::Shared => "shared",
                    mir::BorrowKind::Fake(_) => "fake",
                    mir::BorrowKind::Mut { .. } => "mut",
                };
                J::Arr(vec![J::s("ref"), J::s(k), self.place(p)])
            }
            Rvalue::ThreadLocalRef(d) => J::Arr(vec![J::s("tlr"), J::Str(body_id(tcx, *d))]),
            Rvalue::RawPtr(_, p) => J::Arr(vec![J::s("ptr"), self.place(p)]),
            Rvalue::Cast(k, op, ty) => {
                let ks = format!("{:?}", k);
                let ks = ks.split('(').next().unwrap_or("").to_string();
                J::Arr(vec![J::s("cast"), J::Str(ks), self.operand(op), J::Str(tystr(*ty))])
            }
            Rvalue::BinaryOp(op, ab) => {
                J::Arr(vec![J::s("bin"), J::Str(format!("{:?}", op)), self.operand(&ab.0), self.operand(&ab.1)])
            }
            Rvalue::NullaryOp(op, ty) => {
                let ks = format!("{:?}", op);
                let ks = ks.split('(').next().unwrap_or("").to_string();
                J::Arr(vec![J::s("null"), J::Str(ks), J::Str(tystr(*ty))])
            }
            Rvalue::UnaryOp(op, a) => J::Arr(vec![J::s("un"), J::Str(format!("{:?}", op)), self.operand(a)]),
            Rvalue::Discriminant(p) => J::Arr(vec![J::s("disc"), self.place(p)]),
            Rvalue::Aggregate(kind, ops) => {
                let k = match &**kind {
                    AggregateKind::Array(_) => J::s("array"),
                    AggregateKind::Tuple => J::s("tuple"),
                    AggregateKind::Adt(did, vidx, _, _, active) => {
                        let adt = tcx.adt_def(*did);
                        if did.is_local() {
                            self.adts.insert(*did);
                        }
                        let vd = adt.variant(*vidx);
                        let fields: Vec<J> = match active {
                            Some(f) => vec![J::Str(vd.fields[*f].name.to_string())],
                            None => vd.fields.iter().map(|f| J::Str(f.name.to_string())).collect(),
                        };
                        J::obj(vec![
                            ("adt", J::Str(body_id(tcx, *did))),
                            ("variant", J::Str(vd.name.to_string())),
                            ("vidx", J::Int(vidx.as_usize() as i128)),
                            ("fields", J::Arr(fields)),
                        ])
                    }
                    AggregateKind::Closure(did, _) => {
                        let names = upvar_names(tcx, *did);
                        J::obj(vec![("closure", J::Str(body_id(tcx, *did))), ("fields", names)])
                    }
                    AggregateKind::Coroutine(did, _) => {
                        let names = upvar_names(tcx, *did);
                        J::obj(vec![("coroutine", J::Str(body_id(tcx, *did))), ("fields", names)])
                    }
                    AggregateKind::CoroutineClosure(did, _) => {
                        let names = upvar_names(tcx, *did);
                        J::obj(vec![("coroutine_closure", J::Str(body_id(tcx, *did))), ("fields", names)])
                    }
                    AggregateKind::RawPtr(..) => J::s("rawptr"),
                };
                let ops: Vec<J> = ops.iter().map(|o| self.operand(o)).collect();
                J::Arr(vec![J::s("agg"), k, J::Arr(ops)])
            }
            Rvalue::ShallowInitBox(op, _) => J::Arr(vec![J::s("box"), self.operand(op)]),
            Rvalue::CopyForDeref(p) => J::Arr(vec![J::s("cfd"), self.place(p)]),
            Rvalue::WrapUnsafeBinder(op, _) => J::Arr(vec![J::s("use"), self.operand(op)]),
        }
    }

    fn block(&mut self, bbd: &BasicBlockData<'tcx>) -> J {
        let tcx = self.tcx;
        let mut stmts = Vec::new();
        for st in &bbd.statements {
            match &st.kind {
                StatementKind::Assign(b) => {
                    let (p, rv) = &**b;
                    let (_, line, _) = span_info(tcx, st.source_info.span);
                    stmts.push(J::Arr(vec![J::s("A"), self.place(p), self.rvalue(rv), J::Int(line as i128)]));
                }
                StatementKind::StorageDead(l) => {
                    stmts.push(J::Arr(vec![J::s("SD"), J::Int(l.as_usize() as i128)]));
                }
                StatementKind::StorageLive(l) => {
                    stmts.push(J::Arr(vec![J::s("SL"), J::Int(l.as_usize() as i128)]));
                }
                StatementKind::SetDiscriminant { place, variant_index } => {
                    stmts.push(J::Arr(vec![
                        J::s("SetD"),
                        self.place(place),
                        J::Int(variant_index.as_usize() as i128),
                    ]));
                }
                StatementKind::Intrinsic(_) => {
                    stmts.push(J::Arr(vec![J::s("Intr")]));
                }
                _ => {}
            }
        }
        let term = bbd.terminator();
        let (_, line, macs) = span_info(tcx, term.source_info.span);
        let bb = |b: mir::BasicBlock| J::Int(b.as_usize() as i128);
        let unw = |u: &mir::UnwindAction| match u {
            mir::UnwindAction::Cleanup(b) => J::Int(b.as_usize() as i128),
            _ => J::Null,
        };
        let mut o: Vec<(&'static str, J)> = Vec::new();
        match &term.kind {
            TerminatorKind::Goto { target } => {
                o.push(("t", J::s("goto")));
                o.push(("tgt", bb(*target)));
            }
            TerminatorKind::SwitchInt { discr, targets } => {
                o.push(("t", J::s("sw")));
                o.push(("d", self.operand(discr)));
                o.push(("dty", J::Str(tystr(discr.ty(&self.body.local_decls, tcx)))));
                let ts: Vec<J> =
                    targets.iter().map(|(v, b)| J::Arr(vec![J::Int(v as i128), bb(b)])).collect();
                o.push(("targets", J::Arr(ts)));
                o.push(("else", bb(targets.otherwise())));
            }
            TerminatorKind::UnwindResume => o.push(("t", J::s("resume"))),
            TerminatorKind::UnwindTerminate(_) => o.push(("t", J::s("abort"))),
            TerminatorKind::Return => o.push(("t", J::s("ret"))),
            TerminatorKind::Unreachable => o.push(("t", J::s("unreachable"))),
            TerminatorKind::Drop { place, target, unwind, .. } => {
                o.push(("t", J::s("drop")));
                o.push(("p", self.place(place)));
                o.push(("tgt", bb(*target)));
                o.push(("unw", unw(unwind)));
            }
            TerminatorKind::Call { func, args, destination, target, unwind, fn_span, .. } => {
                self.n_calls += 1;
                o.push(("t", J::s("call")));
                self.callee(func, &mut o);
                let a: Vec<J> = args.iter().map(|a| self.operand(&a.node)).collect();
                o.push(("args", J::Arr(a)));
                o.push(("dest", self.place(destination)));
                o.push(("dty", J::Str(tystr(destination.ty(&self.body.local_decls, tcx).ty))));
                o.push(("tgt", target.map(bb).unwrap_or(J::Null)));
                o.push(("unw", unw(unwind)));
                let (_, fl, fm) = span_info(tcx, *fn_span);
                if fl != 0 && fl != line {
                    o.push(("fline", J::Int(fl as i128)));
                }
                if !fm.is_empty() && fm != macs {
                    o.push(("fmac", J::Arr(fm.into_iter().map(J::Str).collect())));
                }
            }
            TerminatorKind::TailCall { func, args, .. } => {
                o.push(("t", J::s("tailcall")));
                self.callee(func, &mut o);
                let a: Vec<J> = args.iter().map(|a| self.operand(&a.node)).collect();
                o.push(("args", J::Arr(a)));
            }
            TerminatorKind::Assert { cond, expected, msg, target, unwind } => {
                o.push(("t", J::s("assert")));
                o.push(("cond", self.operand(cond)));
                o.push(("exp", J::Bool(*expected)));
                let m = format!("{:?}", msg);
                let m = m.split(|c| c == '(' || c == ' ' || c == '{').next().unwrap_or("").to_string();
                o.push(("msg", J::Str(m)));
                if let mir::AssertKind::Overflow(op, _, _) = &**msg {
                    o.push(("op", J::Str(format!("{:?}", op))));
                }
                o.push(("tgt", bb(*target)));
                o.push(("unw", unw(unwind)));
            }
            TerminatorKind::Yield { value, resume, resume_arg, drop } => {
                self.n_yields += 1;
                o.push(("t", J::s("yield")));
                o.push(("v", self.operand(value)));
                o.push(("tgt", bb(*resume)));
                o.push(("arg", self.place(resume_arg)));
                o.push(("drop", drop.map(bb).unwrap_or(J::Null)));
            }
            TerminatorKind::CoroutineDrop => o.push(("t", J::s("codrop"))),
            TerminatorKind::FalseEdge { real_target, imaginary_target } => {
                o.push(("t", J::s("goto")));
                o.push(("tgt", bb(*real_target)));
                o.push(("imag", bb(*imaginary_target)));
            }
            TerminatorKind::FalseUnwind { real_target, .. } => {
                o.push(("t", J::s("goto")));
                o.push(("tgt", bb(*real_target)));
                o.push(("loophead", J::Bool(true)));
            }
            TerminatorKind::InlineAsm { .. } => o.push(("t", J::s("asm"))),
        }
        o.push(("line", J::Int(line as i128)));
        if !macs.is_empty() {
            o.push(("mac", J::Arr(macs.into_iter().map(J::Str).collect())));
        }
        let mut b = vec![("s", J::Arr(stmts)), ("term", J::obj(o))];
        if bbd.is_cleanup {
            b.push(("cleanup", J::Bool(true)));
        }
        J::obj(b)
    }

    fn callee(&mut self, func: &Operand<'tcx>, o: &mut Vec<(&'static str, J)>) {
        let tcx = self.tcx;
        let fty = func.ty(&self.body.local_decls, tcx);
        match fty.kind() {
            ty::FnDef(did, args) => {
                o.push(("f", J::Str(body_id(tcx, *did))));
                o.push(("fi", J::Str(canon!(tcx.def_path_str_with_args(*did, args)))));
                // self type: first generic arg for trait methods, impl self type for inherent
                if let Some(parent) = tcx.opt_parent(*did) {
                    match tcx.def_kind(parent) {
                        DefKind::Trait => {
                            if args.len() > 0 {
                                if let Some(t) = args[0].as_type() {
                                    o.push(("self", J::Str(tystr(t))));
                                }
                            }
                            o.push(("trait", J::Str(defstr(tcx, parent))));
                        }
                        DefKind::Impl { .. } => {
                            let st = tcx.type_of(parent).instantiate(tcx, args);
                            o.push(("self", J::Str(tystr(st))));
                        }
                        _ => {}
                    }
                }
                let targs: Vec<J> = args.iter().filter_map(|a| a.as_type()).map(|t| J::Str(tystr(t))).collect();
                o.push(("targs", J::Arr(targs)));
                match Instance::try_resolve(tcx, TypingEnv::post_analysis(tcx, self.def.to_def_id()), *did, args) {
                    Ok(Some(inst)) => {
                        let rd = inst.def_id();
                        let kind = match inst.def {
                            ty::InstanceKind::Item(_) => "item",
                            ty::InstanceKind::Virtual(..) => "virtual",
                            ty::InstanceKind::ClosureOnceShim { .. } => "once_shim",
                            ty::InstanceKind::FnPtrShim(..) => "fnptr_shim",
                            ty::InstanceKind::DropGlue(..) => "drop_glue",
                            ty::InstanceKind::CloneShim(..) => "clone_shim",
                            ty::InstanceKind::Intrinsic(..) => "intrinsic",
                            _ => "other",
                        };
                        if rd != *did {
                            o.push(("r", J::Str(body_id(tcx, rd))));
                        }
                        if rd.is_local() {
                            o.push(("rl", J::Bool(true)));
                        }
                        if kind != "item" {
                            o.push(("rk", J::s(kind)));
                        }
                    }
                    Ok(None) => o.push(("rk", J::s("unresolved"))),
                    Err(_) => o.push(("rk", J::s("error"))),
                }
            }
            ty::FnPtr(..) => {
                o.push(("f", J::s("<fnptr>")));
                o.push(("fop", self.operand(func)));
            }
            _ => {
                o.push(("f", J::s("<unknown>")));
                o.push(("fty", J::Str(tystr(fty))));
            }
        }
    }
}

fn is_strish<'tcx>(ty: Ty<'tcx>) -> bool {
    match ty.kind() {
        ty::Ref(_, inner, _) => matches!(inner.kind(), ty::Str),
        _ => false,
    }
}

fn push_scalar_int<'tcx>(si: ty::ScalarInt, ty: Ty<'tcx>, o: &mut Vec<(&'static str, J)>) {
    let size = si.size();
    let bits = si.to_bits(size);
    match ty.kind() {
        ty::Int(_) => {
            let v = size.sign_extend(bits);
            o.push(("v", J::Int(v)));
        }
        ty::Bool => o.push(("v", J::Int(bits as i128))),
        ty::Char => o.push(("v", J::Int(bits as i128))),
        ty::Float(_) => o.push(("fbits", J::Str(format!("{:#x}", bits)))),
        _ => {
            if bits <= i128::MAX as u128 {
                o.push(("v", J::Int(bits as i128)));
            } else {
                o.push(("vs", J::Str(format!("{}", bits))));
            }
        }
    }
}

fn upvar_names<'tcx>(tcx: TyCtxt<'tcx>, did: DefId) -> J {
    if let Some(l) = did.as_local() {
        let caps = tcx.closure_captures(l);
        J::Arr(caps.iter().map(|c| J::Str(c.to_symbol().to_string())).collect())
    } else {
        J::Arr(vec![])
    }
}

/// collect the interesting constants of a promoted body: strings, ints
fn promoted_consts<'a, 'tcx>(cx: &mut Cx<'a, 'tcx>, pb: &Body<'tcx>) -> J {
    let mut out = Vec::new();
    // NB: places here are relative to the promoted body; we only extract constants.
    for bbd in pb.basic_blocks.iter() {
        for st in &bbd.statements {
            if let StatementKind::Assign(b) = &st.kind {
                let (_, rv) = &**b;
                let mut ops: Vec<&Operand<'tcx>> = Vec::new();
                match rv {
                    Rvalue::Use(o) | Rvalue::Repeat(o, _) | Rvalue::Cast(_, o, _) | Rvalue::UnaryOp(_, o) => ops.push(o),
                    Rvalue::Aggregate(_, os) => ops.extend(os.iter()),
                    Rvalue::BinaryOp(_, ab) => {
                        ops.push(&ab.0);
                        ops.push(&ab.1)
                    }
                    _ => {}
                }
                for o in ops {
                    if let Operand::Constant(c) = o {
                        out.push(cx.konst(&c.const_));
                    }
                }
            }
        }
    }
    J::Arr(out)
}

impl Callbacks for Dump {
    fn after_expansion<'tcx>(&mut self, _c: &rustc_interface::interface::Compiler, tcx: TyCtxt<'tcx>) -> Compilation {
        let t0 = std::time::Instant::now();
        let krate = tcx.crate_name(LOCAL_CRATE).to_string();
        CRATE.with(|c| *c.borrow_mut() = krate.clone());
        let mut lines: Vec<String> = Vec::new();
        let mut named_consts: BTreeSet<DefId> = BTreeSet::new();
        let mut adts: BTreeSet<DefId> = BTreeSet::new();
        let mut n_bodies = 0usize;
        let mut n_calls = 0usize;
        let mut n_yields = 0usize;

        for ldid in tcx.hir_body_owners() {
            let dk = tcx.def_kind(ldid);
            if matches!(dk, DefKind::Const) && !tcx.generics_of(ldid).requires_monomorphization(tcx) {
                // every free `const` item is evaluated (not only those used as operands): a table built from other
                // constants must be readable back into their names
                named_consts.insert(ldid.to_def_id());
            }
            if !matches!(dk, DefKind::Fn | DefKind::AssocFn | DefKind::Closure | DefKind::SyntheticCoroutineBody) {
                continue;
            }
            let (steal, promoted) = tcx.mir_promoted(ldid);
            let body = steal.borrow();
            let promoted = promoted.borrow();
            let did = ldid.to_def_id();
            let mut cx = Cx {
                tcx,
                body: &body,
                def: ldid,
                named_consts: &mut named_consts,
                adts: &mut adts,
                n_calls: 0,
                n_yields: 0,
            };
            let (file, line, macs) = span_info(tcx, body.span);
            let sm = tcx.sess.source_map();
            let end_line = if body.span.is_dummy() { 0 } else { sm.lookup_char_pos(body.span.source_callsite().hi()).line };
            let kind = match dk {
                DefKind::Closure | DefKind::SyntheticCoroutineBody => {
                    if tcx.is_coroutine(did) { "coroutine" } else { "closure" }
                }
                _ => "fn",
            };
            let co = tcx.coroutine_kind(did).map(|k| format!("{:?}", k));
            let parent = if matches!(dk, DefKind::Closure | DefKind::SyntheticCoroutineBody) {
                let p = tcx.local_parent(ldid);
                J::Str(body_id(tcx, p.to_def_id()))
            } else {
                J::Null
            };
            let locals: Vec<J> = body
                .local_decls
                .iter()
                .map(|d| {
                    let mut v = vec![J::Str(tystr(d.ty))];
                    if d.is_user_variable() {
                        v.push(J::Bool(true));
                    }
                    J::Arr(v)
                })
                .collect();
            let mut vars: Vec<J> = Vec::new();
            for vdi in &body.var_debug_info {
                if let mir::VarDebugInfoContents::Place(p) = &vdi.value {
                    vars.push(J::Arr(vec![J::Str(vdi.name.to_string()), cx.place(p)]));
                }
            }
            let blocks: Vec<J> = body.basic_blocks.iter().map(|b| cx.block(b)).collect();
            let proms: Vec<J> = promoted.iter().map(|pb| promoted_consts(&mut cx, pb)).collect();
            n_calls += cx.n_calls;
            n_yields += cx.n_yields;
            n_bodies += 1;
            // impl info
            let mut extra: Vec<(&'static str, J)> = Vec::new();
            if matches!(dk, DefKind::AssocFn) {
                let p = tcx.local_parent(ldid);
                if let DefKind::Impl { of_trait } = tcx.def_kind(p) {
                    let st = tcx.type_of(p).instantiate_identity();
                    extra.push(("impl_self", J::Str(tystr(st))));
                    if of_trait {
                        if let Some(tr) = tcx.impl_trait_ref(p) {
                            let tr = tr.instantiate_identity();
                            extra.push(("impl_trait", J::Str(defstr(tcx, tr.def_id))));
                        }
                    }
                }
            }
            if matches!(dk, DefKind::Fn | DefKind::AssocFn) {
                extra.push(("vis", J::Str(format!("{:?}", tcx.visibility(did)))));
            }
            let mut o = vec![
                ("k", J::s("body")),
                ("id", J::Str(body_id(tcx, did))),
                ("crate", J::Str(krate.clone())),
                ("kind", J::s(kind)),
                ("co", co.map(J::Str).unwrap_or(J::Null)),
                ("parent", parent),
                ("file", J::Str(file)),
                ("line", J::Int(line as i128)),
                ("end_line", J::Int(end_line as i128)),
                ("argc", J::Int(body.arg_count as i128)),
                ("locals", J::Arr(locals)),
                ("vars", J::Arr(vars)),
                ("blocks", J::Arr(blocks)),
                ("promoted", J::Arr(proms)),
            ];
            if !macs.is_empty() {
                o.push(("mac", J::Arr(macs.into_iter().map(J::Str).collect())));
            }
            o.extend(extra);
            lines.push(J::obj(o).to_string());
        }

        // ADTs (local) seen
        let mut adts_v: Vec<DefId> = adts.iter().copied().collect();
        adts_v.sort_by_key(|d| defstr(tcx, *d));
        for did in adts_v.iter() {
            let adt = tcx.adt_def(*did);
            let discrs: Vec<Option<u128>> = if adt.is_enum() {
                adt.discriminants(tcx).map(|(_, d)| Some(d.val)).collect()
            } else {
                vec![None; adt.variants().len()]
            };
            let variants: Vec<J> = adt
                .variants()
                .iter()
                .enumerate()
                .map(|(vi, v)| {
                    let fields: Vec<J> = v
                        .fields
                        .iter()
                        .map(|f| {
                            J::obj(vec![
                                ("name", J::Str(f.name.to_string())),
                                ("ty", J::Str(tystr(tcx.type_of(f.did).instantiate_identity()))),
                                ("vis", J::Str(format!("{:?}", f.vis))),
                            ])
                        })
                        .collect();
                    let mut vo = vec![("name", J::Str(v.name.to_string())), ("fields", J::Arr(fields))];
                    if let Some(Some(d)) = discrs.get(vi) {
                        if *d <= i128::MAX as u128 {
                            vo.push(("discr", J::Int(*d as i128)));
                        }
                    }
                    J::obj(vo)
                })
                .collect();
            lines.push(
                J::obj(vec![
                    ("k", J::s("adt")),
                    ("id", J::Str(body_id(tcx, *did))),
                    ("kind", J::s(if adt.is_enum() { "enum" } else if adt.is_struct() { "struct" } else { "union" })),
                    ("variants", J::Arr(variants)),
                ])
                .to_string(),
            );
        }

        // named constants: evaluated after all bodies have been dumped (const-eval may steal MIR)
        let mut nc_v: Vec<DefId> = named_consts.iter().copied().collect();
        nc_v.sort_by_key(|d| defstr(tcx, *d));
        for did in nc_v.iter() {
            let ty = tcx.type_of(*did).instantiate_identity();
            let mut o: Vec<(&'static str, J)> = vec![("k", J::s("const")), ("id", J::Str(body_id(tcx, *did))), ("t", J::Str(tystr(ty)))];
            if !ty.has_param() {
                if let Ok(cv) = tcx.const_eval_poly(*did) {
                    match cv {
                        ConstValue::Scalar(mir::interpret::Scalar::Int(si)) => push_scalar_int(si, ty, &mut o),
                        ConstValue::Indirect { alloc_id, offset } if int_array_elem(tcx, ty).is_some() => {
                            // `const X: [i64; N] = [..]`: the element values, little endian in the constant's allocation
                            let (esz, signed, n) = int_array_elem(tcx, ty).unwrap();
                            if let mir::interpret::GlobalAlloc::Memory(mem) = tcx.global_alloc(alloc_id) {
                                let a = mem.inner();
                                let start = offset.bytes() as usize;
                                let end = start + esz * n;
                                if end <= a.len() {
                                    let bytes = a.inspect_with_uninit_and_ptr_outside_interpreter(start..end);
                                    let mut vals = Vec::new();
                                    for i in 0..n {
                                        let mut v: u128 = 0;
                                        for (k, b) in bytes[i * esz..(i + 1) * esz].iter().enumerate() {
                                            v |= (*b as u128) << (8 * k);
                                        }
                                        let iv: i128 = if signed && esz < 16 && (v >> (8 * esz - 1)) & 1 == 1 {
                                            (v as i128) - (1i128 << (8 * esz))
                                        } else {
                                            v as i128
                                        };
                                        vals.push(J::Int(iv));
                                    }
                                    o.push(("arr", J::Arr(vals)));
                                }
                            }
                        }
                        ConstValue::Indirect { alloc_id, offset } if int_struct_array_elem(tcx, ty).is_some() => {
                            // `const X: [Range<u64>; N] = [a..b, ..]`: per element the integer fields in declaration order
                            let (stride, fields, n) = int_struct_array_elem(tcx, ty).unwrap();
                            if let mir::interpret::GlobalAlloc::Memory(mem) = tcx.global_alloc(alloc_id) {
                                let a = mem.inner();
                                let start = offset.bytes() as usize;
                                let end = start + stride * n;
                                if end <= a.len() {
                                    let bytes = a.inspect_with_uninit_and_ptr_outside_interpreter(start..end);
                                    let mut rows = Vec::new();
                                    for i in 0..n {
                                        let mut row = Vec::new();
                                        for (off, esz, signed) in fields.iter().copied() {
                                            let base = i * stride + off;
                                            let mut v: u128 = 0;
                                            for (k, b) in bytes[base..base + esz].iter().enumerate() {
                                                v |= (*b as u128) << (8 * k);
                                            }
                                            let iv: i128 = if signed && esz < 16 && (v >> (8 * esz - 1)) & 1 == 1 {
                                                (v as i128) - (1i128 << (8 * esz))
                                            } else {
                                                v as i128
                                            };
                                            row.push(J::Int(iv));
                                        }
                                        rows.push(J::Arr(row));
                                    }
                                    o.push(("arr2", J::Arr(rows)));
                                }
                            }
                        }
                        ConstValue::Slice { .. } | ConstValue::Indirect { .. } if is_str_ref(ty) => {
                            if let Some(bytes) = cv.try_get_slice_bytes_for_diagnostics(tcx) {
                                if let Ok(s) = std::str::from_utf8(bytes) {
                                    o.push(("s", J::Str(s.to_string())));
                                }
                            }
                        }
                        _ => {}
                    }
                }
            }
            lines.push(J::obj(o).to_string());
        }

        lines.push(
            J::obj(vec![
                ("k", J::s("meta")),
                ("crate", J::Str(krate.clone())),
                ("n_bodies", J::Int(n_bodies as i128)),
                ("n_calls", J::Int(n_calls as i128)),
                ("n_yields", J::Int(n_yields as i128)),
                ("rustc", J::Str(option_env!("CORROLINT_RUSTC_VERSION").unwrap_or("nightly").to_string())),
                ("extract_ms", J::Int(t0.elapsed().as_millis() as i128)),
            ])
            .to_string(),
        );
        let path = format!("{}/{}-{}.jsonl", self.out_dir, krate, std::process::id());
        let tmp = format!("{}.tmp", path);
        let mut f = std::fs::File::create(&tmp).expect("create facts file");
        let mut buf = lines.join("\n");
        buf.push('\n');
        f.write_all(buf.as_bytes()).expect("write facts");
        drop(f);
        std::fs::rename(&tmp, &path).expect("rename facts");
        Compilation::Continue
    }
}

/// (element byte size, signed, length) of `[iN; LEN]` / `[uN; LEN]` with a known length
fn int_array_elem<'tcx>(tcx: TyCtxt<'tcx>, ty: Ty<'tcx>) -> Option<(usize, bool, usize)> {
    if let ty::Array(elem, len) = ty.kind() {
        let n = len.try_to_target_usize(tcx)?;
        let (sz, signed) = match elem.kind() {
            ty::Int(i) => (i.bit_width().unwrap_or(64) as usize / 8, true),
            ty::Uint(u) => (u.bit_width().unwrap_or(64) as usize / 8, false),
            _ => return None,
        };
        if n <= 4096 {
            return Some((sz, signed, n as usize));
        }
    }
    None
}

/// (element stride, [(field offset, byte size, signed)] in declaration order, length) of `[S; LEN]` where S is a
/// non-generic-after-substitution struct whose fields are all primitive integers (e.g. `Range<u64>`)
fn int_struct_array_elem<'tcx>(tcx: TyCtxt<'tcx>, ty: Ty<'tcx>) -> Option<(usize, Vec<(usize, usize, bool)>, usize)> {
    if let ty::Array(elem, len) = ty.kind() {
        let n = len.try_to_target_usize(tcx)?;
        if n > 4096 {
            return None;
        }
        if let ty::Adt(adt, args) = elem.kind() {
            if !adt.is_struct() || elem.has_param() {
                return None;
            }
            let layout = tcx.layout_of(TypingEnv::fully_monomorphized().as_query_input(*elem)).ok()?;
            let mut fields = Vec::new();
            for (i, f) in adt.non_enum_variant().fields.iter().enumerate() {
                let fty = f.ty(tcx, args);
                let (sz, signed) = match fty.kind() {
                    ty::Int(i) => (i.bit_width().unwrap_or(64) as usize / 8, true),
                    ty::Uint(u) => (u.bit_width().unwrap_or(64) as usize / 8, false),
                    _ => return None,
                };
                fields.push((layout.fields.offset(i).bytes() as usize, sz, signed));
            }
            if fields.is_empty() {
                return None;
            }
            return Some((layout.size.bytes() as usize, fields, n as usize));
        }
    }
    None
}

fn is_str_ref(ty: Ty<'_>) -> bool {
    matches!(ty.kind(), ty::Ref(_, inner, _) if inner.is_str())
}

struct Plain;
impl Callbacks for Plain {}

fn main() {
    let mut args: Vec<String> = std::env::args().collect();
    // RUSTC_WORKSPACE_WRAPPER: argv[1] = path of real rustc
    if args.len() > 1 && (args[1].ends_with("rustc") || args[1].contains("/rustc")) {
        args.remove(1);
    }
    let out_dir = std::env::var("CORROLINT_OUT").ok();
    // only analyse real compilations (not `rustc -vV`, `--print`), and skip build scripts
    let is_probe = args.iter().any(|a| a == "-vV" || a.starts_with("--print") || a == "-V" || a == "--version");
    let crate_name = args.iter().position(|a| a == "--crate-name").and_then(|i| args.get(i + 1)).cloned();
    let is_build_script = crate_name.as_deref().map_or(false, |c| c.starts_with("build_script_"));
    match out_dir {
        Some(d) if !is_probe && !is_build_script && crate_name.is_some() => {
            let mut cb = Dump { out_dir: d };
            rustc_driver::run_compiler(&args, &mut cb);
        }
        _ => {
            rustc_driver::run_compiler(&args, &mut Plain);
        }
    }
}
