#!/usr/bin/env python3
"""seeded/RESULTS.md from seeded/DIAG.json (which obligations of the target property fire), seeded/MATRIX.json (cross-property
run, where available) and seeded/*/verify.json (independent confirmation of each change)"""
import glob, json, os
HERE = os.path.dirname(os.path.dirname(os.path.abspath(__file__)))
S = os.path.join(HERE, "seeded")
diag = json.load(open(os.path.join(S, "DIAG.json"))) if os.path.exists(os.path.join(S, "DIAG.json")) else {}
mat = json.load(open(os.path.join(S, "MATRIX.json"))) if os.path.exists(os.path.join(S, "MATRIX.json")) else {}
out = ["# Seeded changes x checks\n",
       "Each change was written by a sub-agent that saw only the property text; it was then confirmed independently (demo passes on the clean tree / fails with the change / change compiles / existing tests pass) and applied to a scratch copy of the current tree, from which facts were re-extracted and the property's rules evaluated.\n",
       "| seed | status | violated obligations (first two) | other properties that also fire | confirmation (clean / with change / compiles / tests) |", "|---|---|---|---|---|"]
for d in sorted(glob.glob(os.path.join(S, "*-[a-z]"))):
    name = os.path.basename(d)
    v = json.load(open(os.path.join(d, "verify.json"))) if os.path.exists(os.path.join(d, "verify.json")) else {}
    dg = diag.get(name, {})
    others = sorted(k for k in mat.get(name, {}).get("flagged_by", {}) if k != name.split("-")[0])
    conf = "%s / %s / %s / %s" % tuple(v.get(k, "?") for k in ("demo_passes_without_change", "demo_fails_with_change", "compiles", "existing_tests_pass"))
    if v.get("note"):
        conf += " (note: see verify.json)"
    out.append("| %s | %s | %s | %s | %s |" % (name, dg.get("status", "?"), "; ".join(x.split("/", 1)[-1] for x in dg.get("violations", [])[:2]), ", ".join(others) or ("-" if name in mat else "not run"), conf))
own = {k: v for k, v in diag.items() if k.startswith("own:")}
if own:
    out += ["", "## Own mutants (mutants/*.diff)", "", "| mutant | property | status | violated obligations |", "|---|---|---|---|"]
    for k in sorted(own):
        out.append("| %s | %s | %s | %s |" % (k[4:], own[k].get("property", ""), own[k].get("status"), "; ".join(x.split("/", 1)[-1] for x in own[k].get("violations", [])[:2])))
open(os.path.join(S, "RESULTS.md"), "w").write("\n".join(out) + "\n")
print(len(out), "lines")
