#!/usr/bin/env python3
"""make_mutant.py <name> <prop> <repo-relative file> <old> <new> [<why>]  — write mutants/<name>.diff (unified diff against
/repo's current file, /repo is not touched) and register it in mutants/INDEX.json"""
import difflib, json, os, sys
name, prop, rel, old, new = sys.argv[1:6]
why = sys.argv[6] if len(sys.argv) > 6 else ""
src = open(os.path.join("/repo", rel)).read()
if src.count(old) != 1:
    sys.exit("pattern occurs %d times in %s" % (src.count(old), rel))
dst = src.replace(old, new)
diff = "".join(difflib.unified_diff(src.splitlines(True), dst.splitlines(True), "a/" + rel, "b/" + rel))
os.makedirs("/verif/mutants", exist_ok=True)
open("/verif/mutants/%s.diff" % name, "w").write(diff)
idx_p = "/verif/mutants/INDEX.json"
idx = json.load(open(idx_p)) if os.path.exists(idx_p) else {}
idx[name] = {"property": prop, "file": rel, "why": why}
json.dump(idx, open(idx_p, "w"), indent=1, sort_keys=True)
print("wrote mutants/%s.diff (%d lines)" % (name, diff.count("\n")))
