#!/usr/bin/env python3
"""tools/try_patch.py <diff> <Cxx> [<Cxx>..] — apply a patch to a scratch copy of /repo, extract, evaluate, print failing obligations"""
import subprocess, sys, os
HERE = os.path.dirname(os.path.dirname(os.path.abspath(__file__)))
sys.path.insert(0, HERE)
from corrolint import extract as ex, facts as fx, runner
patch = os.path.abspath(sys.argv[1])
try:
    sc = ex.scratch_copy()
    r = subprocess.run(["git", "apply", "--unsafe-paths", "--directory", sc, patch], capture_output=True, text=True, cwd="/")
    if r.returncode != 0:
        r = subprocess.run(["patch", "-p1", "-s", "-d", sc, "-i", patch], capture_output=True, text=True)
    if r.returncode != 0:
        sys.exit("patch does not apply: " + (r.stderr or r.stdout)[-300:])
    d, dig, fresh, _ = ex.extract(sc)
finally:
    ex.remove_scratch()
F = fx.load(d)
print("facts", d)
for prop in sys.argv[2:]:
    ctx = runner.evaluate(prop, F, "quick", 0, dig, fresh)
    bad = [o for r_ in ctx.rules for o in r_.obligations if not o["ok"]]
    print(prop, "violations:", len(bad))
    for o in bad:
        print("  ", o.get("view", "plain"), o["rule"], o["instance"], o["where"], o["msg"][:260])
