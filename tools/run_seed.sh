#!/bin/sh
# usage: tools/run_seed.sh <seed-dir-name> [checks...]   — apply a seeded change to /repo, run checks, revert
set -u
cd /verif
S=seeded/$1
shift
CHECKS="$@"
if [ -z "$CHECKS" ]; then CHECKS=$(python3 -c "import json;print(' '.join(c['property_id'] for c in json.load(open('MANIFEST.json'))['checks']))"); fi
if ! git -C /repo diff --quiet; then echo "/repo is dirty, refusing"; exit 3; fi
git -C /repo apply "$PWD/$S/patch.diff" || { echo "patch does not apply"; exit 3; }
mkdir -p $S/results
for c in $CHECKS; do
  ./check $c > $S/results/$c.out 2>&1
  rc=$?
  echo "$c rc=$rc $(grep -c '^VIOLATION' $S/results/$c.out) violation(s)"
  grep -A1 '^VIOLATION' $S/results/$c.out | grep 'rule=' | head -5
done
git -C /repo checkout -- .
# evidence files were rewritten against the mutated tree: restore the committed ones
git checkout -- evidence 2>/dev/null
