#!/usr/bin/env python3
import json, sys, glob
import jsonschema
jsonschema.validate(json.load(open('/verif/MANIFEST.json')), json.load(open('/root/.vp/MANIFEST.schema.json')))
es = json.load(open('/root/.vp/EVIDENCE.schema.json'))
for f in sorted(glob.glob('/verif/evidence/C*.json')):
    jsonschema.validate(json.load(open(f)), es)
print('valid: MANIFEST +', len(glob.glob('/verif/evidence/C*.json')), 'evidence files')
