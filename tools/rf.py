#!/usr/bin/env python3
"""debug helper: facts dir of a refactor/mutant run, from a matrix log:  tools/rf.py <log> <name>"""
import re, sys
def facts_of(log, name):
    dig = None
    for line in open(log):
        m = re.search(r"\(digest (\w+)\)", line)
        if m:
            dig = m.group(1)
        if line.startswith(name + " "):
            return "/verif/.cache/facts/" + dig
    return None
if __name__ == "__main__":
    print(facts_of(sys.argv[1], sys.argv[2]))
