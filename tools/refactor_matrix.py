#!/usr/bin/env python3
"""Run every claimed property's rules against every behaviour-preserving refactor (on a scratch copy of the current tree + patch) and
write refactors/MATRIX.json: behaviour-preserving refactors must be flagged by NO check."""
import glob, importlib, json, os, subprocess, sys, time
HERE = os.path.dirname(os.path.dirname(os.path.abspath(__file__)))
sys.path.insert(0, HERE)
from corrolint import extract as ex, facts as fx, graph as gx, runner

props = [c["property_id"] for c in json.load(open(os.path.join(HERE, "MANIFEST.json")))["checks"]]
if os.environ.get("ONLY_PROPS"):
    props = [p for p in props if p in os.environ["ONLY_PROPS"].split(",")]
seeds = sorted(glob.glob(os.path.join(HERE, "refactors", "*.diff")))
if len(sys.argv) > 1:
    seeds = [s for s in seeds if os.path.basename(s)[:-5] in sys.argv[1:]]
matrix = {}
mpath = os.path.join(HERE, "refactors", "MATRIX.json")
if os.path.exists(mpath):
    matrix = json.load(open(mpath))
for patch in seeds:
    name = os.path.basename(patch)[:-5]
    t0 = time.time()
    row = {}
    try:
        scratch = ex.scratch_copy()
        r = subprocess.run(["git", "apply", "--unsafe-paths", "--directory", scratch, patch], capture_output=True, text=True, cwd="/")
        if r.returncode != 0:
            matrix[name] = {"status": "stale", "detail": r.stderr[-300:]}
            continue
        facts_dir, digest, fresh, _ = ex.extract(scratch)
        F = fx.load(facts_dir)
        G = gx.Graph(F)
        for p in props:
            try:
                ctx = runner.evaluate(p, F, "thorough", 0, digest, fresh, G=G)
                viol = [runner.vkey(p, o) for r_ in ctx.rules for o in r_.obligations if not o["ok"]]
            except Exception as e:
                viol = ["CRASH: %r" % e]
            if viol:
                row[p] = viol[:4]
        if os.environ.get("ONLY_PROPS") and matrix.get(name, {}).get("status") == "ok":
            prev = {k: v for k, v in matrix[name].get("flagged_by", {}).items() if k not in props}
            prev.update(row)
            row = prev
        matrix[name] = {"status": "ok", "flagged_by": row, "wall_s": round(time.time() - t0, 1)}
    except ex.Broken as e:
        matrix[name] = {"status": "broken", "detail": str(e)[-300:]}
    finally:
        ex.remove_scratch()
    json.dump(matrix, open(mpath, "w"), indent=1)
    print(name, matrix[name].get("status"), sorted(matrix[name].get("flagged_by", {}).keys()), flush=True)
