#!/usr/bin/env python3
"""write baseline/fns.txt: def paths of all `fn` bodies of /repo's current tree (the decomposition the rules are confirmed on)"""
import os, sys
HERE = os.path.dirname(os.path.dirname(os.path.abspath(__file__)))
sys.path.insert(0, HERE)
from corrolint import extract as ex, facts as fx
d, dig, fresh, _ = ex.extract()
F = fx.load(d)
ids = sorted(b.id for b in F.bodies.values() if b.kind == "fn")
os.makedirs(os.path.join(HERE, "baseline"), exist_ok=True)
with open(os.path.join(HERE, "baseline", "fns.txt"), "w") as fh:
    fh.write("\n".join(ids) + "\n")
print(len(ids), "fns; facts", dig)
