#!/usr/bin/env python3
"""regenerate MANIFEST.json from rules/registry.py; a property is claimed iff rules/<id>.py exists"""
import json, os, sys
HERE = os.path.dirname(os.path.dirname(os.path.abspath(__file__)))
sys.path.insert(0, HERE)
from rules import registry as reg

props = [json.loads(l)["id"] for l in open(os.path.join(HERE, "properties.jsonl"))]
baseline = json.load(open("/root/.vp/BASELINE.json"))["cmd"] if os.path.exists("/root/.vp/BASELINE.json") else "cargo test --workspace --no-fail-fast --offline"
checks, na = [], []
for p in props:
    if p in reg.NOT_APPLICABLE:
        na.append({"property_id": p, "reason": reg.NOT_APPLICABLE[p]})
        continue
    if not os.path.exists(os.path.join(HERE, "rules", p + ".py")):
        na.append({"property_id": p, "reason": "static rules designed (DESIGN.md %s) but not built/armed yet in this tree; not claimed until its check exists" % reg.CLAIMS[p]["ref"]})
        continue
    c = reg.CLAIMS[p]
    checks.append({
        "property_id": p,
        "quick_cmd": "./check %s --tier quick" % p,
        "thorough_cmd": "./check %s --tier thorough" % p,
        "evidence_file": "evidence/%s.json" % p,
        "replay_cmd_template": "./check %s --explain {path}" % p,
        "engine": "corrolint",
        "level_claimed": {"category": "other", "text": c["text"], "design_ref": "DESIGN.md " + c["ref"]},
        "level_note": c["note"],
        "technique": "static analysis: " + c["technique"],
    })
m = {
    "version": 1,
    "setup_cmd": "./setup.sh",
    "hooks": {
        "guard": "corrosion_verif",
        "enable": "none required: the extractor is an external rustc wrapper (RUSTC_WORKSPACE_WRAPPER); nothing in /repo is instrumented",
        "baseline_off_cmd": baseline,
        "source_commits": [],
        "add_only": True,
    },
    "engines": [{
        "name": "corrolint",
        "path": "driver/ (rustc_private MIR fact extractor) + corrolint/ (Python analysis library) + rules/ (per-property rule tables)",
        "serves_properties": [c["property_id"] for c in checks],
        "kind_free_text": "static analysis of type-checked MIR: CFG dominance, backward/forward dataflow slices, held-resource dataflow, call-graph summaries, guard truth tables, sibling-agreement checks",
    }],
    "checks": checks,
    "not_applicable": na,
    "notes": "Technique family: static analysis only. Every check re-extracts MIR facts from /repo's current working tree (memoised by a digest of all sources) and never executes corrosion. Exit 2 + CHECK-BROKEN means the tree does not build or the extractor/positive controls failed.",
}
json.dump(m, open(os.path.join(HERE, "MANIFEST.json"), "w"), indent=1)
print("claimed:", [c["property_id"] for c in checks], "n/a:", [x["property_id"] for x in na])
