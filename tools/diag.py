#!/usr/bin/env python3
"""diagonal self-test: every seeded change and own mutant against its own property only (tools/seed_matrix.py does the full
cross-product).  Writes seeded/DIAG.json"""
import glob, json, os, subprocess, sys, time
HERE = os.path.dirname(os.path.dirname(os.path.abspath(__file__)))
sys.path.insert(0, HERE)
from corrolint import extract as ex, facts as fx, runner
jobs = []
for patch in sorted(glob.glob(os.path.join(HERE, "seeded", "*", "patch.diff"))):
    name = os.path.basename(os.path.dirname(patch))
    jobs.append((name, name.split("-")[0], patch))
idx = json.load(open(os.path.join(HERE, "mutants", "INDEX.json")))
for m in sorted(idx):
    jobs.append(("own:" + m, idx[m]["property"], os.path.join(HERE, "mutants", m + ".diff")))
only = sys.argv[1:]
res_p = os.path.join(HERE, "seeded", "DIAG.json")
res = json.load(open(res_p)) if os.path.exists(res_p) else {}
for name, prop, patch in jobs:
    if only and name not in only and prop not in only:
        continue
    try:
        scratch = ex.scratch_copy()
        r = subprocess.run(["git", "apply", "--unsafe-paths", "--directory", scratch, patch], capture_output=True, text=True, cwd="/")
        if r.returncode != 0:
            r = subprocess.run(["patch", "-p1", "-s", "-d", scratch, "-i", patch], capture_output=True, text=True)
        if r.returncode != 0:
            res[name] = {"status": "stale"}
            print(name, "STALE", flush=True)
            continue
        d, dig, fresh, _ = ex.extract(scratch)
        F = fx.load(d)
        ctx = runner.evaluate(prop, F, "thorough", 0, dig, fresh)
        viol = [runner.vkey(prop, o) for r_ in ctx.rules for o in r_.obligations if not o["ok"]]
        res[name] = {"status": "detected" if viol else "MISSED", "property": prop, "violations": viol[:4], "at": time.strftime("%Y-%m-%dT%H:%M:%S")}
        print(name, res[name]["status"], viol[:2], flush=True)
    except ex.Broken as e:
        res[name] = {"status": "broken", "detail": str(e)[-300:]}
        print(name, "BROKEN", flush=True)
    finally:
        ex.remove_scratch()
    json.dump(res, open(res_p, "w"), indent=1, sort_keys=True)
