#!/usr/bin/env python3
"""apply each mutants/*.diff to a scratch copy of /repo, re-extract facts, run the target property's rules; expect a violation"""
import importlib, json, os, subprocess, sys, time
HERE = os.path.dirname(os.path.dirname(os.path.abspath(__file__)))
sys.path.insert(0, HERE)
from corrolint import extract as ex, facts as fx, graph as gx, runner
idx = json.load(open(os.path.join(HERE, "mutants", "INDEX.json")))
names = sys.argv[1:] or sorted(idx)
res_p = os.path.join(HERE, "mutants", "RESULTS.json")
res = json.load(open(res_p)) if os.path.exists(res_p) else {}
for name in names:
    m = idx[name]
    patch = os.path.join(HERE, "mutants", name + ".diff")
    try:
        scratch = ex.scratch_copy()
        r = subprocess.run(["patch", "-p1", "-s", "-d", scratch, "-i", patch], capture_output=True, text=True)
        if r.returncode != 0:
            res[name] = {"status": "stale", "detail": (r.stdout + r.stderr)[-200:]}
            print(name, "STALE")
            continue
        facts_dir, digest, fresh, _ = ex.extract(scratch)
        F = fx.load(facts_dir)
        ctx = runner.evaluate(m["property"], F, "thorough", 0, digest, fresh)
        viol = [runner.vkey(m["property"], o) for r_ in ctx.rules for o in r_.obligations if not o["ok"]]
        res[name] = {"status": "detected" if viol else "MISSED", "property": m["property"], "violations": viol[:4], "why": m.get("why", "")}
        print(name, res[name]["status"], viol[:2], flush=True)
    except ex.Broken as e:
        res[name] = {"status": "does-not-compile", "detail": str(e)[-400:]}
        print(name, "DOES NOT COMPILE", str(e)[-300:])
    finally:
        ex.remove_scratch()
    json.dump(res, open(res_p, "w"), indent=1, sort_keys=True)
