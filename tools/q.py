"""interactive helper: from tools.q import *  -> F, G loaded from the latest repo facts"""
import sys, os, re
sys.path.insert(0, os.path.dirname(os.path.dirname(os.path.abspath(__file__))))
from corrolint import facts, graph, flow, extract as ex
from corrolint.facts import op_place, op_const, op_local
import rules.common as cm
F = facts.load(ex.latest_facts_dir())
G = graph.Graph(F)
