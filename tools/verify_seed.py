#!/usr/bin/env python3
"""Independent confirmation of a seeded change in its scratch worktree (/tmp/wt/<ID>):
demo passes on the pinned tree, fails with the change; the change compiles; the existing tests of the touched
crates still pass (baseline nextest profile). Writes seeded/<name>/verify.json"""
import json, os, subprocess, sys, time

name = sys.argv[1]            # e.g. C09-a
wt = sys.argv[2] if len(sys.argv) > 2 else "/tmp/wt/" + name.split("-")[0]
sd = "/verif/seeded/" + name
meta = json.load(open(sd + "/meta.json"))
patch = sd + ("/patch.orig.diff" if os.path.exists(sd + "/patch.orig.diff") else "/patch.diff")
env = dict(os.environ, CARGO_NET_OFFLINE="true", CARGO_TARGET_DIR=wt + "/target")
log = open(sd + "/verify.log", "w")

def sh(cmd, timeout=3600):
    log.write("$ " + cmd + "\n"); log.flush()
    r = subprocess.run(cmd, shell=True, cwd=wt, env=env, stdout=subprocess.PIPE, stderr=subprocess.STDOUT, text=True, timeout=timeout)
    log.write(r.stdout[-6000:] + "\n[rc=%d]\n" % r.returncode); log.flush()
    return r.returncode, r.stdout

def reset():
    sh("git checkout -- . && git clean -fdq -e _out -e target")

res = {"seed": name, "worktree": wt, "at": time.strftime("%Y-%m-%dT%H:%M:%S")}
reset()
rc, _ = sh("git apply %s/demo.diff" % sd)
res["demo_applies"] = rc == 0
demo = meta["demo_cmd"]
# make the demo robust to the repo's 60 s default nextest kill under load
if "nextest run" in demo and "--profile" not in demo:
    demo = demo.replace("nextest run", "nextest run --tool-config-file pb:/w/lib/nextest.toml --profile pb")
rc, out = sh(demo)
res["demo_passes_without_change"] = rc == 0
rc, _ = sh("git apply %s" % patch)
res["patch_applies_on_pinned"] = rc == 0
rc, out = sh(demo)
res["demo_fails_with_change"] = rc != 0
rc, _ = sh("cargo check --offline --workspace 2>&1 | tail -3")
res["compiles"] = rc == 0
# existing tests of touched crates, without the demo
sh("git apply -R %s/demo.diff" % sd)
crates = sorted({"klukai-types" if "klukai-types/" in f else "klukai-agent" if "klukai-agent/" in f else "klukai" if "crates/klukai/" in f else "klukai-client" if "klukai-client/" in f else "klukai-types" for f in meta.get("files_touched", [])})
if "klukai-types" in crates and "klukai-agent" not in crates:
    crates.append("klukai-agent")
cmd = "cargo nextest run --offline %s --no-fail-fast --test-threads 8 --tool-config-file pb:/w/lib/nextest.toml --profile pb 2>&1 | tail -15" % " ".join("-p " + c for c in crates)
rc, out = sh(cmd, timeout=7200)
res["existing_tests_cmd"] = cmd
res["existing_tests_pass"] = ("passed" in out and "failed" not in out.split("Summary")[-1] and "timed out" not in out.split("Summary")[-1]) if "Summary" in out else False
res["existing_tests_summary"] = [l for l in out.splitlines() if "Summary" in l][-1:] 
reset()
json.dump(res, open(sd + "/verify.json", "w"), indent=1)
print(json.dumps(res))
