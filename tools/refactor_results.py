#!/usr/bin/env python3
"""refactors/RESULTS.md from refactors/MATRIX.first.json (first run) and refactors/MATRIX.json (current rules)"""
import json, os, re
HERE = os.path.dirname(os.path.dirname(os.path.abspath(__file__)))
R = os.path.join(HERE, "refactors")
first = json.load(open(os.path.join(R, "MATRIX.first.json"))) if os.path.exists(os.path.join(R, "MATRIX.first.json")) else {}
cur = json.load(open(os.path.join(R, "MATRIX.json")))
desc = {}
for f in os.listdir(R):
    if f.endswith("-README.md"):
        pre = f.split("-")[0]
        for line in open(os.path.join(R, f)):
            m = re.match(r"refactor-(\d+):\s*(.*)", line)
            if m:
                desc["%s-%s" % (pre, m.group(1))] = m.group(2).strip()
out = ["# Behaviour-preserving refactors x checks\n",
       "Every refactor was produced by a sub-agent without access to /verif, compiles and passes the touched crates' tests. A check that fires here is a false alarm by construction.\n",
       "| refactor | what | flagged on first run | flagged now |", "|---|---|---|---|"]
for k in sorted(cur, key=lambda x: (x.split("-")[0], int(x.split("-")[1]))):
    f0 = first.get(k, {}).get("flagged_by")
    f1 = cur[k].get("flagged_by", {})
    out.append("| %s | %s | %s | %s |" % (k, desc.get(k, "")[:160].replace("|", "/"),
                                         ("-" if f0 is None else (", ".join(sorted(f0)) or "none")), (", ".join(sorted(f1)) or "none") if cur[k].get("status") == "ok" else cur[k].get("status")))
open(os.path.join(R, "RESULTS.md"), "w").write("\n".join(out) + "\n")
print("\n".join(out[-8:]))
