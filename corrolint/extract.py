"""Fact extraction: run the rustc_private driver over /repo's workspace and memoise by tree digest."""
import fcntl
import glob
import hashlib
import json
import os
import shutil
import subprocess
import sys
import time

VERIF = os.path.dirname(os.path.dirname(os.path.abspath(__file__)))
REPO = os.environ.get("CORROLINT_REPO", "/repo")
CACHE = os.path.join(VERIF, ".cache")
DRIVER_DIR = os.path.join(VERIF, "driver")
DRIVER = os.path.join(DRIVER_DIR, "target", "debug", "corrolint-driver")

# floors measured on the pinned commit (80 %): a crate with fewer bodies means the extraction is broken
BODY_FLOORS = {"klukai_types": 1576, "klukai_agent": 938, "klukai_client": 102, "corrosion": 560}
WORKSPACE_CRATES = ["klukai_types", "klukai_agent", "klukai_client", "corrosion", "klukai_tests",
                    "klukai_devcluster", "integration_tests"]


class Broken(Exception):
    pass


def _env(repo):
    env = dict(os.environ)
    env["CARGO_NET_OFFLINE"] = "true"
    sysroot = subprocess.run(["rustc", "--print", "sysroot"], cwd=repo, capture_output=True, text=True, env=env)
    if sysroot.returncode != 0:
        raise Broken("rustc --print sysroot failed: " + sysroot.stderr[-400:])
    env["LD_LIBRARY_PATH"] = sysroot.stdout.strip() + "/lib:" + env.get("LD_LIBRARY_PATH", "")
    return env


def build_driver():
    env = dict(os.environ)
    env["CARGO_NET_OFFLINE"] = "true"
    r = subprocess.run(["cargo", "build", "--offline"], cwd=DRIVER_DIR, capture_output=True, text=True, env=env)
    if r.returncode != 0 or not os.path.exists(DRIVER):
        raise Broken("driver build failed:\n" + r.stderr[-3000:])


def tree_digest(repo):
    """sha256 over every file that can influence the build (tracked + untracked, not ignored) + driver binary."""
    h = hashlib.sha256()
    if os.path.exists(os.path.join(repo, ".git")):
        r = subprocess.run(["git", "-C", repo, "ls-files", "-co", "--exclude-standard", "-z"], capture_output=True)
        if r.returncode != 0:
            raise Broken("git ls-files failed in " + repo)
        files = sorted(f for f in r.stdout.decode().split("\0") if f)
    else:
        files = []
        for root, dirs, fs in os.walk(repo):
            dirs[:] = [d for d in dirs if d not in ("target", ".git")]
            for f in fs:
                files.append(os.path.relpath(os.path.join(root, f), repo))
        files.sort()
    keep_ext = (".rs", ".toml", ".lock", ".sql", ".so", ".dylib", ".json", ".md", ".proto", ".txt")
    for f in files:
        if not f.endswith(keep_ext):
            continue
        p = os.path.join(repo, f)
        if not os.path.isfile(p):
            h.update(b"D:" + f.encode())
            continue
        if f.endswith((".so", ".dylib")):
            st = os.stat(p)
            h.update(("B:%s:%d" % (f, st.st_size)).encode())
            continue
        h.update(b"F:" + f.encode() + b"\0")
        with open(p, "rb") as fh:
            h.update(fh.read())
    with open(DRIVER, "rb") as fh:
        h.update(hashlib.sha256(fh.read()).digest())
    return h.hexdigest()[:24]


def extract(repo=REPO, no_cache=False, target_dir=None, log=sys.stderr):
    """returns (facts_dir, digest, fresh: bool, wall_s)"""
    t0 = time.time()
    os.makedirs(os.path.join(CACHE, "facts"), exist_ok=True)
    if not os.path.exists(DRIVER):
        build_driver()
    lockf = open(os.path.join(CACHE, "extract.lock"), "w")
    fcntl.flock(lockf, fcntl.LOCK_EX)
    try:
        digest = tree_digest(repo)
        out = os.path.join(CACHE, "facts", digest)
        done = os.path.join(out, "DONE")
        if os.path.exists(done) and not no_cache:
            try:
                os.utime(out, None)  # LRU: a memo hit refreshes the entry
            except OSError:
                pass
            return out, digest, False, time.time() - t0
        if os.path.exists(out):
            shutil.rmtree(out)
        tmp = out + ".tmp"
        if os.path.exists(tmp):
            shutil.rmtree(tmp)
        os.makedirs(tmp)
        target = target_dir or os.path.join(CACHE, "target")
        os.makedirs(target, exist_ok=True)
        # cargo's freshness cache would skip the wrapper: force workspace members to rebuild
        for fp in glob.glob(os.path.join(target, "debug", ".fingerprint", "*")):
            base = os.path.basename(fp)
            if base.startswith(("klukai", "integration-tests", "corrosion")):
                shutil.rmtree(fp, ignore_errors=True)
        env = _env(repo)
        env["CORROLINT_OUT"] = tmp
        env["RUSTC_WORKSPACE_WRAPPER"] = DRIVER
        env["CARGO_TARGET_DIR"] = target
        env.pop("RUSTFLAGS", None)
        print("corrolint: extracting MIR facts from %s (digest %s) ..." % (repo, digest), file=log)
        r = subprocess.run(["cargo", "check", "--offline", "--workspace", "--quiet"], cwd=repo,
                           capture_output=True, text=True, env=env)
        if r.returncode != 0:
            shutil.rmtree(tmp, ignore_errors=True)
            raise Broken("build failed (cargo check through the driver):\n" + r.stderr[-4000:])
        # one file per crate process; verify presence and floors
        seen = {}
        for f in glob.glob(os.path.join(tmp, "*.jsonl")):
            crate = os.path.basename(f).rsplit("-", 1)[0]
            with open(f, "rb") as fh:
                fh.seek(max(0, os.path.getsize(f) - 4096))
                last = fh.read().decode().strip().split("\n")[-1]
            meta = json.loads(last)
            if meta.get("k") != "meta":
                raise Broken("facts file without meta trailer: " + f)
            # keep the largest (a crate may be compiled more than once, e.g. lib + bin)
            if crate not in seen or meta["n_bodies"] > seen[crate][1]["n_bodies"]:
                seen[crate] = (f, meta)
        for crate, floor in BODY_FLOORS.items():
            if crate not in seen:
                raise Broken("no facts for workspace crate %s" % crate)
            if seen[crate][1]["n_bodies"] < floor:
                raise Broken("crate %s: %d bodies < floor %d" % (crate, seen[crate][1]["n_bodies"], floor))
        for crate, (f, meta) in seen.items():
            os.rename(f, os.path.join(tmp, crate + ".facts"))
        for f in glob.glob(os.path.join(tmp, "*.jsonl")):
            os.remove(f)
        with open(os.path.join(tmp, "DONE"), "w") as fh:
            json.dump({"digest": digest, "repo": repo, "crates": {c: m for c, (f, m) in seen.items()},
                       "wall_s": time.time() - t0}, fh)
        os.rename(tmp, out)
        # keep the cache small: drop all but the 14 newest fact dirs
        # (facts of the repository itself and of scratch copies are retained separately, so a burst of scratch
        # extractions cannot evict the repository's own facts)
        dirs = sorted(glob.glob(os.path.join(CACHE, "facts", "*")), key=os.path.getmtime, reverse=True)
        own, other = [], []
        for d in dirs:
            try:
                r = json.load(open(os.path.join(d, "DONE"))).get("repo")
            except Exception:
                r = None
            (own if r == REPO else other).append(d)
        for d in own[6:] + other[10:]:
            if d != out:
                shutil.rmtree(d, ignore_errors=True)
        return out, digest, True, time.time() - t0
    finally:
        fcntl.flock(lockf, fcntl.LOCK_UN)
        lockf.close()


if __name__ == "__main__":
    try:
        d, dig, fresh, w = extract(no_cache="--no-cache" in sys.argv)
        print(d, dig, "fresh" if fresh else "cached", "%.1fs" % w)
    except Broken as e:
        print("CHECK-BROKEN:", e)
        sys.exit(2)


FIXTURES_DIR = os.path.join(VERIF, "fixtures")


def extract_fixtures(log=sys.stderr):
    """facts of the positive-control fixture crate; memoised by digest of its sources + driver"""
    if not os.path.exists(DRIVER):
        build_driver()
    h = hashlib.sha256()
    for root, _, files in sorted(os.walk(FIXTURES_DIR)):
        if "/target" in root:
            continue
        for f in sorted(files):
            if f.endswith((".rs", ".toml", ".lock")):
                with open(os.path.join(root, f), "rb") as fh:
                    h.update(f.encode() + b"\0" + fh.read())
    with open(DRIVER, "rb") as fh:
        h.update(hashlib.sha256(fh.read()).digest())
    digest = "fixtures-" + h.hexdigest()[:16]
    out = os.path.join(CACHE, "facts", digest)
    os.makedirs(os.path.join(CACHE, "facts"), exist_ok=True)
    lockf = open(os.path.join(CACHE, "fixtures.lock"), "w")
    fcntl.flock(lockf, fcntl.LOCK_EX)
    try:
        if os.path.exists(os.path.join(out, "DONE")):
            return out
        tmp = out + ".tmp"
        shutil.rmtree(tmp, ignore_errors=True)
        shutil.rmtree(out, ignore_errors=True)
        os.makedirs(tmp)
        target = os.path.join(CACHE, "fixtures-target")
        shutil.rmtree(os.path.join(target, "debug", ".fingerprint"), ignore_errors=True)
        env = _env(FIXTURES_DIR)
        env["CORROLINT_OUT"] = tmp
        env["RUSTC_WORKSPACE_WRAPPER"] = DRIVER
        env["CARGO_TARGET_DIR"] = target
        env.pop("RUSTFLAGS", None)
        r = subprocess.run(["cargo", "check", "--offline", "--quiet"], cwd=FIXTURES_DIR, capture_output=True,
                           text=True, env=env)
        if r.returncode != 0:
            raise Broken("fixture crate does not build:\n" + r.stderr[-3000:])
        n = 0
        for f in glob.glob(os.path.join(tmp, "*.jsonl")):
            crate = os.path.basename(f).rsplit("-", 1)[0]
            os.rename(f, os.path.join(tmp, crate + ".facts"))
            n += 1
        if n == 0:
            raise Broken("fixture extraction produced no facts")
        with open(os.path.join(tmp, "DONE"), "w") as fh:
            fh.write(digest)
        os.rename(tmp, out)
        return out
    finally:
        fcntl.flock(lockf, fcntl.LOCK_UN)
        lockf.close()


def latest_facts_dir():
    """most recent repo facts dir (debug helper; checks always call extract())"""
    ds = [d for d in glob.glob(os.path.join(CACHE, "facts", "*")) if os.path.exists(os.path.join(d, "DONE"))
          and not os.path.basename(d).startswith("fixtures-")]
    return sorted(ds, key=os.path.getmtime)[-1]



SCRATCH = os.environ.get("CORROLINT_SCRATCH", "/tmp/corrolint-scratch")


_SCRATCH_LOCK = None


def scratch_copy(repo=REPO):
    """fresh copy of the repository's working tree (without target/.git) outside /repo and /verif.
    One scratch user at a time (flock), released by remove_scratch()."""
    global _SCRATCH_LOCK
    if _SCRATCH_LOCK is None:
        os.makedirs(CACHE, exist_ok=True)
        _SCRATCH_LOCK = open(os.path.join(CACHE, "scratch.lock"), "w")
        fcntl.flock(_SCRATCH_LOCK, fcntl.LOCK_EX)
    if os.path.exists(SCRATCH):
        shutil.rmtree(SCRATCH)
    os.makedirs(SCRATCH)
    r = subprocess.run(["rsync", "-a", "--exclude", "target", "--exclude", ".git", repo.rstrip("/") + "/", SCRATCH + "/"], capture_output=True, text=True)
    if r.returncode != 0:
        raise Broken("rsync to scratch failed: " + r.stderr[-500:])
    return SCRATCH


def remove_scratch():
    global _SCRATCH_LOCK
    shutil.rmtree(SCRATCH, ignore_errors=True)
    if _SCRATCH_LOCK is not None:
        fcntl.flock(_SCRATCH_LOCK, fcntl.LOCK_UN)
        _SCRATCH_LOCK.close()
        _SCRATCH_LOCK = None
