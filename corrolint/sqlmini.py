"""A tiny reader for the boolean WHERE skeletons used by the bookkeeping SQL: identifiers, :named params, integer
literals, + -, comparisons, BETWEEN .. AND .., AND / OR / NOT, parentheses, `--` comments.  A statement it cannot
parse raises ParseError: the rule depending on it is then undischargeable (reported), never silently passed."""
import re


class ParseError(Exception):
    pass


_TOK = re.compile(r"\s*(?:(--[^\n]*)|(:\w+|\?\d*)|(\d+)|(<=|>=|<>|!=|=|<|>)|([A-Za-z_][\w.]*|\"[^\"]+\")|([()+\-*,;]))")


def tokenize(s):
    out = []
    i = 0
    s = s.rstrip()
    while i < len(s):
        m = _TOK.match(s, i)
        if not m:
            if s[i:].strip() == "":
                break
            raise ParseError("cannot tokenize at: %r" % s[i:i + 30])
        i = m.end()
        if m.group(1):
            continue
        if m.group(2):
            out.append(("param", m.group(2)))
        elif m.group(3):
            out.append(("int", int(m.group(3))))
        elif m.group(4):
            out.append(("op", m.group(4)))
        elif m.group(5):
            w = m.group(5)
            if w.upper() in ("AND", "OR", "NOT", "BETWEEN", "IN", "IS", "NULL", "EXISTS", "SELECT", "FROM", "WHERE"):
                out.append(("kw", w.upper()))
            else:
                out.append(("id", w.strip('"').lower()))
        else:
            out.append(("p", m.group(6)))
    return out


class Parser:
    def __init__(self, toks):
        self.t = toks
        self.i = 0

    def peek(self):
        return self.t[self.i] if self.i < len(self.t) else ("eof", None)

    def eat(self, kind=None, val=None):
        k, v = self.peek()
        if kind is not None and k != kind or val is not None and v != val:
            raise ParseError("expected %s %s, got %s %s" % (kind, val, k, v))
        self.i += 1
        return k, v

    # expr := or
    def expr(self):
        return self.or_()

    def or_(self):
        l = self.and_()
        while self.peek() == ("kw", "OR"):
            self.eat()
            r = self.and_()
            l = ("or", l, r)
        return l

    def and_(self):
        l = self.not_()
        while self.peek() == ("kw", "AND"):
            self.eat()
            r = self.not_()
            l = ("and", l, r)
        return l

    def not_(self):
        if self.peek() == ("kw", "NOT"):
            self.eat()
            return ("not", self.not_())
        return self.cmp()

    def cmp(self):
        l = self.add()
        k, v = self.peek()
        if k == "op":
            self.eat()
            r = self.add()
            return ("cmp", v, l, r)
        if (k, v) == ("kw", "BETWEEN"):
            self.eat()
            lo = self.add()
            self.eat("kw", "AND")
            hi = self.add()
            return ("and", ("cmp", ">=", l, lo), ("cmp", "<=", l, hi))
        if (k, v) == ("kw", "NOT") and self.i + 1 < len(self.t) and self.t[self.i + 1] == ("kw", "BETWEEN"):
            self.eat()
            self.eat()
            lo = self.add()
            self.eat("kw", "AND")
            hi = self.add()
            return ("not", ("and", ("cmp", ">=", l, lo), ("cmp", "<=", l, hi)))
        return ("truthy", l)

    def add(self):
        l = self.atom()
        while self.peek() in (("p", "+"), ("p", "-")):
            _, op = self.eat()
            r = self.atom()
            l = ("arith", op, l, r)
        return l

    def atom(self):
        k, v = self.peek()
        if k == "int":
            self.eat()
            return ("int", v)
        if k == "param":
            self.eat()
            return ("var", v)
        if k == "id":
            self.eat()
            return ("var", v)
        if (k, v) == ("p", "("):
            self.eat()
            e = self.expr()
            self.eat("p", ")")
            return ("paren", e)
        if (k, v) == ("p", "-"):
            self.eat()
            return ("arith", "-", ("int", 0), self.atom())
        raise ParseError("unexpected token %s %s" % (k, v))


def parse_bool(s):
    p = Parser(tokenize(s))
    e = p.expr()
    if p.peek()[0] != "eof":
        raise ParseError("trailing tokens: %s" % (p.t[p.i:p.i + 4],))
    return e


def ev(e, env):
    k = e[0]
    if k == "int":
        return e[1]
    if k == "var":
        if e[1] not in env:
            raise ParseError("unbound name %s" % e[1])
        return env[e[1]]
    if k == "paren":
        return ev(e[1], env)
    if k == "arith":
        a, b = ev(e[2], env), ev(e[3], env)
        return a + b if e[1] == "+" else a - b
    if k == "truthy":
        v = ev(e[1], env)
        return bool(v) if not isinstance(v, bool) else v
    if k == "cmp":
        a, b = ev(e[2], env), ev(e[3], env)
        return {"=": a == b, "<": a < b, "<=": a <= b, ">": a > b, ">=": a >= b, "<>": a != b, "!=": a != b}[e[1]]
    if k == "and":
        return bool(ev(e[1], env)) and bool(ev(e[2], env))
    if k == "or":
        return bool(ev(e[1], env)) or bool(ev(e[2], env))
    if k == "not":
        return not bool(ev(e[1], env))
    raise ParseError("bad node %s" % k)


def names(e, out=None):
    out = set() if out is None else out
    if e[0] == "var":
        out.add(e[1])
    for x in e[1:]:
        if isinstance(x, tuple):
            names(x, out)
    return out


def where_clause(sql, until=("RETURNING", "GROUP BY", "ORDER BY", "LIMIT")):
    """text of the (first, outermost) WHERE clause"""
    m = re.search(r"\bWHERE\b", sql, re.I)
    if not m:
        raise ParseError("no WHERE")
    rest = sql[m.end():]
    end = len(rest)
    depth = 0
    i = 0
    up = rest.upper()
    while i < len(rest):
        ch = rest[i]
        if ch == "(":
            depth += 1
        elif ch == ")":
            depth -= 1
            if depth < 0:
                end = i
                break
        elif depth == 0:
            for u in until:
                if up.startswith(u, i) and (i == 0 or not up[i - 1].isalnum()):
                    end = min(end, i)
        i += 1
    return rest[:end]


def select_columns(sql):
    """column list of the first SELECT ... FROM (top level commas), lower-cased, quotes stripped"""
    m = re.search(r"\bSELECT\b(.*?)\bFROM\b", sql, re.I | re.S)
    if not m:
        raise ParseError("no SELECT..FROM")
    cols = []
    depth = 0
    cur = ""
    for ch in m.group(1):
        if ch == "(":
            depth += 1
        elif ch == ")":
            depth -= 1
        if ch == "," and depth == 0:
            cols.append(cur)
            cur = ""
        else:
            cur += ch
    cols.append(cur)
    return [c.strip().strip('"').lower() for c in cols if c.strip()]


def insert_columns(sql):
    m = re.search(r"\bINSERT\s+(?:OR\s+\w+\s+)?INTO\s+[\w\"]+\s*\(([^)]*)\)", sql, re.I | re.S)
    if not m:
        raise ParseError("no INSERT (cols)")
    return [c.strip().strip('"').lower() for c in m.group(1).split(",") if c.strip()]


def insert_values(sql):
    m = re.search(r"\bVALUES\s*\(([^)]*)\)", sql, re.I | re.S)
    if not m:
        raise ParseError("no VALUES (...)")
    return [c.strip() for c in m.group(1).split(",") if c.strip()]
