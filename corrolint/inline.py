"""Inlined view of the fact base.

Rules are mostly intra-procedural (dominance, must-pass, origin slices inside one body).  Extracting part of an anchored
function into a private helper leaves the program unchanged but hides the extracted part from such a rule.  The inlined
view undoes that: every call whose resolved callee is a *private, non-trait, non-recursive workspace `fn`* is replaced
by the callee's CFG (locals and blocks renumbered, arguments assigned to the parameters, `return` turned into an
assignment of the return place to the call's destination followed by a jump to the call's target).  Helpers that are
inlined at all their call sites disappear from the view (their closures are re-parented to the caller), so
who-may-write rules see the write in the caller.

The view describes the same program (inlining is semantics-preserving); a rule that is sound on MIR bodies is sound on
it.  The runner evaluates a property on the plain view first and, only if that reports violations, on the inlined view;
the property is reported violated only if both views agree (runner.run_property)."""
import copy

from . import facts as fx

MAX_DEPTH = 3
MAX_BLOCKS = 30000
MAX_CALLEE_BLOCKS = 900


def _sh_place(p, off):
    q = [p[0] + off]
    for e in p[1:]:
        if isinstance(e, list) and e and e[0] == "i":
            q.append(["i", e[1] + off])
        else:
            q.append(e)
    return q


def _sh_op(op, off, poff):
    if op[0] in ("c", "m"):
        return [op[0], _sh_place(op[1], off)]
    if op[0] == "k":
        k = op[1]
        if isinstance(k, dict) and "promoted" in k:
            k = dict(k)
            k["promoted"] = k["promoted"] + poff
            return ["k", k]
        return op
    return op


def _sh_rv(rv, off, poff):
    t = rv[0]
    if t in ("use", "rep", "box"):
        return [t, _sh_op(rv[1], off, poff)] + list(rv[2:])
    if t == "ref":
        return [t, rv[1], _sh_place(rv[2], off)]
    if t in ("ptr", "disc", "cfd"):
        return [t, _sh_place(rv[1], off)]
    if t == "cast":
        return [t, rv[1], _sh_op(rv[2], off, poff)] + list(rv[3:])
    if t == "bin":
        return [t, rv[1], _sh_op(rv[2], off, poff), _sh_op(rv[3], off, poff)]
    if t == "un":
        return [t, rv[1], _sh_op(rv[2], off, poff)]
    if t == "agg":
        return [t, rv[1], [_sh_op(o, off, poff) for o in rv[2]]]
    return rv  # null, tlr, ...


def _sh_stmt(s, off, poff):
    t = s[0]
    if t == "A":
        return ["A", _sh_place(s[1], off), _sh_rv(s[2], off, poff)] + list(s[3:])
    if t in ("SD", "SL"):
        return [t, s[1] + off]
    if t == "SetD":
        return [t, _sh_place(s[1], off)] + list(s[2:])
    return s


def _sh_term(t, off, poff, boff):
    n = dict(t)
    for k in ("tgt", "unw", "else", "drop", "imag"):
        if isinstance(n.get(k), int):
            n[k] = n[k] + boff
    if "targets" in n:
        n["targets"] = [[v, b + boff] for v, b in n["targets"]]
    if "args" in n:
        n["args"] = [_sh_op(a, off, poff) for a in n["args"]]
    if "dest" in n and n["dest"] is not None:
        n["dest"] = _sh_place(n["dest"], off)
    if "d" in n:
        n["d"] = _sh_op(n["d"], off, poff)
    if "p" in n and isinstance(n["p"], list):
        n["p"] = _sh_place(n["p"], off)
    if "cond" in n:
        n["cond"] = _sh_op(n["cond"], off, poff)
    if "v" in n and isinstance(n["v"], list):
        n["v"] = _sh_op(n["v"], off, poff)
    if "arg" in n and isinstance(n["arg"], list):
        n["arg"] = _sh_place(n["arg"], off)
    return n


_RULE_WORDS = None


def rule_words():
    """identifiers occurring in the rule tables: a function a rule mentions by name is an anchor and is never dissolved"""
    global _RULE_WORDS
    if _RULE_WORDS is None:
        import glob, os, re
        words = set()
        here = os.path.dirname(os.path.dirname(os.path.abspath(__file__)))
        for f in glob.glob(os.path.join(here, "rules", "*.py")):
            with open(f) as fh:
                words |= set(re.findall(r"[A-Za-z_][A-Za-z0-9_]*", fh.read()))
        _RULE_WORDS = words
    return _RULE_WORDS


_BASELINE = False


def baseline_fns():
    """def paths of the functions of the tree the rule instances were confirmed on (baseline/fns.txt, committed; regenerate with
    tools/gen_baseline.py after re-confirming the rules on a new reference tree).  Only functions that are NOT in this list -
    i.e. helpers introduced since - are dissolved into their callers."""
    global _BASELINE
    if _BASELINE is False:
        import os
        here = os.path.dirname(os.path.dirname(os.path.abspath(__file__)))
        p = os.path.join(here, "baseline", "fns.txt")
        try:
            with open(p) as fh:
                _BASELINE = {l.rstrip("\n") for l in fh if l.strip()}
        except OSError:
            _BASELINE = None
    return _BASELINE


def inlinable(F):
    """ids of bodies that may be inlined into their callers: private, non-trait, non-recursive workspace fns that are
    not async shells and that no rule names"""
    out = set()
    words = rule_words()
    known = baseline_fns()
    if known is None:
        return out
    for b in F.bodies.values():
        if b.kind != "fn" or b.impl_trait or not (b.vis or "").startswith("Restricted"):
            continue
        if b.id in known:
            continue  # part of the decomposition the rules were confirmed against
        simple = b.id.rsplit("::", 1)[-1]
        if simple in words:
            continue
        # (an `async fn` shell only builds its coroutine; it is inlined like any fn, and the coroutine body is inlined at the
        # `poll` of its `.await`, see _inline_into)
        if b.n > MAX_CALLEE_BLOCKS or b.n == 0:
            continue
        if any((c.t.get("r") or c.f) == b.id for c in b.all_calls()):
            continue  # directly recursive
        if any(bl["term"]["t"] in ("yield", "tailcall") for bl in b.blocks):
            continue
        out.add(b.id)
    return out


POLL = "core::future::future::Future::poll"


def async_bodies(F, inl):
    """coroutine bodies of inlinable `async fn` shells: {coroutine id} (inlined where they are polled by an `.await`)"""
    out = set()
    for fid in inl:
        b = F.bodies.get(fid)
        if b is None:
            continue
        for bl in b.blocks:
            for s_ in bl["s"]:
                if s_[0] == "A" and s_[1] == [0] and s_[2][0] == "agg" and isinstance(s_[2][1], dict) and "coroutine" in s_[2][1]:
                    cid = s_[2][1]["coroutine"]
                    cb = F.bodies.get(cid)
                    if cb is not None and cb.n <= MAX_CALLEE_BLOCKS and not any((c.t.get("r") or c.f) == cid for c in cb.all_calls()):
                        out.add(cid)
    return out


def _awaitee(o, place):
    """the local holding the future that `Pin::new_unchecked(&mut *(&mut fut))` pins: follow the reborrows back"""
    seen = set()
    cur = place
    while cur is not None and cur[0] not in seen:
        seen.add(cur[0])
        nxt = None
        for bl in o["blocks"]:
            for s_ in bl["s"]:
                if s_[0] == "A" and s_[1] == [cur[0]]:
                    rv = s_[2]
                    if rv[0] == "ref":
                        nxt = [rv[2][0]] if all(x == "*" for x in rv[2][1:]) else None
                    elif rv[0] == "use" and rv[1][0] in ("c", "m") and len(rv[1][1]) == 1:
                        nxt = rv[1][1]
            t = bl["term"]
            if t["t"] == "call" and t.get("dest") == [cur[0]] and t.get("f", "").endswith("Pin::<Ptr>::new_unchecked") and t.get("args") and t["args"][0][0] in ("c", "m"):
                nxt = [t["args"][0][1][0]]
        if nxt is None:
            return cur
        cur = nxt
    return cur


def _inline_into(F, raw, inl, inl_co=frozenset()):
    """returns (new raw body dict or None if nothing was inlined, set of callee ids inlined)"""
    blocks = raw["blocks"]

    def wanted(t):
        if t["t"] != "call":
            return False
        if (t.get("r") or t.get("f")) in inl:
            return True
        return t.get("f") == POLL and t.get("r") in inl_co
    todo = [(i, 0, frozenset([raw["id"]])) for i, bl in enumerate(blocks) if wanted(bl["term"]) and not bl.get("cleanup")]
    if not todo:
        return None, set()
    o = dict(raw)
    o["blocks"] = [dict(bl) for bl in blocks]
    o["locals"] = list(raw["locals"])
    o["vars"] = list(raw["vars"])
    o["promoted"] = list(raw.get("promoted", []))
    used = set()
    while todo:
        k, depth, chain = todo.pop(0)
        bl = o["blocks"][k]
        t = bl["term"]
        r = t.get("r") or t.get("f")
        callee = F.bodies.get(r)
        if callee is None or r in chain or depth >= MAX_DEPTH:
            continue
        c = callee.o
        if len(o["blocks"]) + len(c["blocks"]) > MAX_BLOCKS:
            continue
        is_poll = t.get("f") == POLL and r in inl_co
        if not is_poll and len(t.get("args", [])) != c["argc"]:
            continue
        if is_poll and (len(t.get("args", [])) != 2 or t["args"][0][0] not in ("c", "m")):
            continue
        off = len(o["locals"])
        boff = len(o["blocks"])
        poff = len(o["promoted"])
        o["locals"] += c["locals"]
        o["promoted"] += c.get("promoted", [])
        o["vars"] += [[n, _sh_place(p, off)] for n, p in c["vars"]]
        line = t.get("line", 0)
        ret_to = t.get("tgt")
        dest = t["dest"]
        for i, cb in enumerate(c["blocks"]):
            nb = {"s": [_sh_stmt(s, off, poff) for s in cb["s"]], "term": _sh_term(cb["term"], off, poff, boff)}
            if cb.get("cleanup"):
                nb["cleanup"] = True
            if nb["term"]["t"] == "ret":
                if is_poll:
                    # the awaited future completed: the poll yields Poll::Ready(return value)
                    nb["s"] = nb["s"] + [["A", dest, ["agg", {"adt": "core::task::poll::Poll", "variant": "Ready", "vidx": 0, "fields": ["0"]}, [["m", [off]]]], line]]
                else:
                    nb["s"] = nb["s"] + [["A", dest, ["use", ["m", [off]]], line]]
                nb["term"] = {"t": "goto", "tgt": ret_to, "line": cb["term"].get("line", line), "inl_ret": r} if ret_to is not None \
                    else {"t": "unreachable", "line": line}
            elif wanted(nb["term"]) and not cb.get("cleanup"):
                todo.append((boff + i, depth + 1, chain | {r}))
            o["blocks"].append(nb)
        if is_poll:
            fut = _awaitee(o, t["args"][0][1])
            bl["s"] = list(bl["s"]) + [["A", [off + 1], ["use", ["c", fut]], line], ["A", [off + 2], ["use", t["args"][1]], line]]
            # the inlined future never reports Pending: cut that arm of the `.await` loop
            if ret_to is not None:
                rb = o["blocks"][ret_to]
                rt = rb["term"]
                if rt["t"] == "sw" and any(s_[0] == "A" and s_[2][0] == "disc" and s_[2][1] == dest and s_[1] == rt["d"][1] for s_ in rb["s"]):
                    dead = len(o["blocks"])
                    o["blocks"].append({"s": [], "term": {"t": "unreachable", "line": line}})
                    nt = dict(rt)
                    nt["targets"] = [[v_, (dead if v_ == 1 else b_)] for v_, b_ in rt["targets"]]
                    rb2 = dict(rb)
                    rb2["term"] = nt
                    o["blocks"][ret_to] = rb2
        else:
            bl["s"] = list(bl["s"]) + [["A", [off + 1 + i], ["use", a], line] for i, a in enumerate(t.get("args", []))]
        bl["term"] = {"t": "goto", "tgt": boff, "line": line, "inl": r}
        used.add(r)
    if not used:
        return None, set()
    return o, used


def inlined_view(F):
    """a Facts object describing the same program with private helper fns inlined into their callers"""
    cached = getattr(F, "_inlined_view", None)
    if cached is not None:
        return cached
    inl = inlinable(F)
    inl_co = async_bodies(F, inl)
    V = fx.Facts.__new__(fx.Facts)
    V.dir = F.dir
    V.adts, V.consts, V.meta = F.adts, F.consts, F.meta
    V._children = None
    V._callers = None
    V.bodies = {}
    V.is_inlined_view = True
    V.plain = F
    inlined_somewhere = set()
    changed = {}
    for bid, b in F.bodies.items():
        o, used = _inline_into(F, b.o, inl, inl_co)
        if o is not None:
            changed[bid] = o
            inlined_somewhere |= used
    # helpers absorbed at every call site vanish; their closures move to the (unique) caller
    absorbed = {}
    for h in inlined_somewhere:
        sites = F.callers_of(h)
        if sites and all(c.body.id in changed and not c.body.is_cleanup(c.bb) for c in sites):
            roots = {c.body.id for c in sites}
            absorbed[h] = roots
    for bid, b in F.bodies.items():
        if bid in absorbed:
            continue
        if bid in changed:
            V.bodies[bid] = fx.Body(changed[bid])
        elif b.parent in absorbed and len(absorbed[b.parent]) == 1:
            o = dict(b.o)
            o["parent"] = next(iter(absorbed[b.parent]))
            V.bodies[bid] = fx.Body(o)
        elif b.parent in absorbed:
            # closure of a helper inlined into several callers: keep the helper so the closure still has a home
            V.bodies[bid] = b
            V.bodies[b.parent] = F.bodies[b.parent]
        else:
            V.bodies[bid] = b
    V.inlined = {"helpers": sorted(inlined_somewhere), "absorbed": sorted(absorbed), "bodies_changed": len(changed)}
    F._inlined_view = V
    return V
