"""Fact base: loading of the driver's JSON-lines output and per-body CFG / dominance / slicing queries.

Everything here is property-independent.  Conventions:
  place   = [local, proj...]   proj: "*" | ["f", idx, name] | ["d", variant, idx] | ["i", local] | ...
  operand = ["c", place] | ["m", place] | ["k", const]
  stmt    = ["A", place, rvalue, line] | ["SD", local] | ["SL", local] | ["SetD", place, idx]
  term    = {"t": call|sw|goto|ret|drop|yield|assert|unreachable|resume|..., ...}
"""
import json
import os
import pickle
import re
from collections import defaultdict

NOISE_MACROS = {
    "trace", "debug", "info", "warn", "error", "event", "span", "trace_span", "debug_span", "info_span",
    "warn_span", "error_span", "enabled", "counter", "gauge", "histogram", "assert_sometimes",
    "assert_always", "assert_unreachable", "assert_reachable", "assert_always_or_unreachable",
    "assert_helper", "log", "valueset", "fieldset", "callsite", "level_enabled", "metadata",
    "describe_counter", "describe_gauge", "describe_histogram", "instrument", "json", "json_internal",
    "key_var", "level_to_log", "if_log_enabled", "callsite2",
}


def op_place(op):
    return op[1] if op and op[0] in ("c", "m") else None


def op_const(op):
    return op[1] if op and op[0] == "k" else None


def op_local(op):
    p = op_place(op)
    return p[0] if p is not None else None


def place_fields(place):
    """names of the field projections in order (ignoring derefs/downcasts)"""
    return [p[2] if p[2] != "" else str(p[1]) for p in place[1:] if isinstance(p, list) and p[0] == "f"]


def place_key(place):
    return json.dumps(place)


class Call:
    __slots__ = ("body", "bb", "t")

    def __init__(self, body, bb, t):
        self.body, self.bb, self.t = body, bb, t

    @property
    def f(self):
        return self.t.get("f", "")

    @property
    def fi(self):
        return self.t.get("fi", "")

    @property
    def r(self):
        """resolved callee def path (impl method / coroutine body) or the declared callee"""
        return self.t.get("r") or self.t.get("f", "")

    @property
    def self_ty(self):
        return self.t.get("self", "")

    @property
    def args(self):
        return self.t.get("args", [])

    @property
    def dest(self):
        return self.t.get("dest")

    @property
    def line(self):
        return self.t.get("line", 0)

    @property
    def macs(self):
        return self.t.get("mac", [])

    @property
    def noise(self):
        m = self.t.get("mac")
        return bool(m) and any(x in NOISE_MACROS for x in m)

    def name(self):
        """short callee name: last path segment of the declared callee"""
        return self.f.rsplit("::", 1)[-1]

    def where(self):
        return "%s:%d" % (self.body.file, self.line)

    def __repr__(self):
        return "<call %s @%s bb%d>" % (self.fi or self.f, self.where(), self.bb)


class Body:
    def __init__(self, o):
        self.o = o
        self.id = o["id"]
        self.crate = o["crate"]
        self.kind = o["kind"]
        self.co = o.get("co")
        self.parent = o.get("parent")
        self.file = o["file"]
        self.line = o["line"]
        self.end_line = o.get("end_line", 0)
        self.argc = o["argc"]
        self.locals = [l[0] for l in o["locals"]]
        self.user_locals = {i for i, l in enumerate(o["locals"]) if len(l) > 1 and l[1]}
        self.vars = o["vars"]
        self.blocks = o["blocks"]
        self.promoted = o.get("promoted", [])
        self.impl_self = o.get("impl_self")
        self.impl_trait = o.get("impl_trait")
        self.vis = o.get("vis")
        self.mac = o.get("mac", [])
        self.n = len(self.blocks)
        self._succ = None
        self._pred = None
        self._calls = None
        self._defs = None
        self._names = None
        self._reach_cache = {}

    # ---------------------------------------------------------------- names
    @property
    def names(self):
        """local -> user variable name (whole-local bindings only)"""
        if self._names is None:
            self._names = {}
            for name, place in self.vars:
                if len(place) == 1:
                    self._names.setdefault(place[0], name)
        return self._names

    def upvar_names(self):
        """field idx of the closure/coroutine env -> captured variable name"""
        out = {}
        for name, place in self.vars:
            if place[0] == 1 and len(place) >= 2:
                for p in place[1:]:
                    if isinstance(p, list) and p[0] == "f":
                        out.setdefault(p[1], name)
                        break
        return out

    def lname(self, l):
        return self.names.get(l, "_%d" % l)

    def ty(self, l):
        return self.locals[l]

    # ---------------------------------------------------------------- CFG
    def term(self, bb):
        return self.blocks[bb]["term"]

    def is_cleanup(self, bb):
        return bool(self.blocks[bb].get("cleanup"))

    def term_succs(self, bb, unwind=False):
        t = self.blocks[bb]["term"]
        k = t["t"]
        out = []
        if k == "sw":
            out = [b for _, b in t["targets"]] + [t["else"]]
        elif k in ("goto", "drop", "call", "assert", "yield"):
            if t.get("tgt") is not None:
                out = [t["tgt"]]
        if unwind:
            if t.get("unw") is not None:
                out.append(t["unw"])
            if k == "yield" and t.get("drop") is not None:
                out.append(t["drop"])
        return out

    @property
    def succ(self):
        if self._succ is None:
            self._succ = [list(dict.fromkeys(self.term_succs(b))) for b in range(self.n)]
        return self._succ

    @property
    def pred(self):
        if self._pred is None:
            p = [[] for _ in range(self.n)]
            for b in range(self.n):
                for s in self.succ[b]:
                    p[s].append(b)
            self._pred = p
        return self._pred

    def reachable(self, start=0, no_nodes=(), no_edges=()):
        """set of blocks reachable from `start` on normal (non-unwind) edges, avoiding nodes/edges"""
        key = (start, tuple(sorted(no_nodes)), tuple(sorted(no_edges)))
        c = self._reach_cache.get(key)
        if c is not None:
            return c
        no_nodes = set(no_nodes)
        no_edges = set(no_edges)
        seen = set()
        if start in no_nodes:
            self._reach_cache[key] = seen
            return seen
        stack = [start]
        seen.add(start)
        while stack:
            b = stack.pop()
            for s in self.succ[b]:
                if s in seen or s in no_nodes or (b, s) in no_edges:
                    continue
                seen.add(s)
                stack.append(s)
        self._reach_cache[key] = seen
        return seen

    def live_blocks(self):
        return self.reachable(0)

    def dominates(self, a, b):
        """block a dominates block b (every path entry->b passes a). A block dominates itself."""
        if a == b:
            return True
        if b not in self.reachable(0):
            return True  # vacuous
        return b not in self.reachable(0, no_nodes=(a,))

    def edge_dominates(self, edge, b):
        """every path entry->b takes CFG edge (u,v)"""
        if b not in self.reachable(0):
            return True
        return b not in self.reachable(0, no_edges=(edge,))

    def edges_dominate(self, edges, b):
        """every path entry->b takes at least one of the edges"""
        if b not in self.reachable(0):
            return True
        return b not in self.reachable(0, no_edges=tuple(edges))

    def can_reach(self, a, b, no_nodes=(), no_edges=()):
        return b in self.reachable(a, no_nodes=no_nodes, no_edges=no_edges)

    def return_blocks(self):
        return [b for b in self.live_blocks() if self.term(b)["t"] == "ret"]

    def back_edges(self):
        """DFS back edges (u,v) on the normal CFG"""
        color = {}
        out = []
        stack = [(0, iter(self.succ[0]))]
        color[0] = 1
        while stack:
            b, it = stack[-1]
            adv = False
            for s in it:
                if color.get(s, 0) == 0:
                    color[s] = 1
                    stack.append((s, iter(self.succ[s])))
                    adv = True
                    break
                elif color[s] == 1:
                    out.append((b, s))
            if not adv:
                color[b] = 2
                stack.pop()
        return out

    def in_loop_with(self, a, b):
        """a and b lie on a common cycle"""
        return self.can_reach(a, b) and self.can_reach(b, a)

    # ---------------------------------------------------------------- calls
    @property
    def calls(self):
        if self._calls is None:
            live = self.live_blocks()
            self._calls = [Call(self, i, bl["term"]) for i, bl in enumerate(self.blocks)
                           if bl["term"]["t"] == "call" and i in live]
        return self._calls

    def all_calls(self):
        """calls including those only on cleanup paths"""
        return [Call(self, i, bl["term"]) for i, bl in enumerate(self.blocks) if bl["term"]["t"] == "call"]

    def calls_to(self, pred, noise=False):
        if isinstance(pred, str):
            rx = re.compile(pred)
            pred = lambda c: rx.search(c.fi) or rx.search(c.r)
        return [c for c in self.calls if (noise or not c.noise) and pred(c)]

    # ---------------------------------------------------------------- defs
    @property
    def defs(self):
        """local -> list of (bb, idx|'T', kind, payload): every statement/terminator that writes the whole
        local or a projection of it.  kind: 'assign' (payload=(place, rvalue)), 'call' (payload=Call),
        'yield' (payload=term)"""
        if self._defs is None:
            d = defaultdict(list)
            for bb, bl in enumerate(self.blocks):
                for i, s in enumerate(bl["s"]):
                    if s[0] == "A":
                        d[s[1][0]].append((bb, i, "assign", (s[1], s[2])))
                t = bl["term"]
                if t["t"] == "call":
                    d[t["dest"][0]].append((bb, "T", "call", Call(self, bb, t)))
                elif t["t"] == "yield":
                    d[t["arg"][0]].append((bb, "T", "yield", t))
            self._defs = d
        return self._defs

    def const_strings(self, include_promoted=True):
        """all string constants appearing in the body: list of (string, bb or None, line)"""
        out = []

        def walk_op(op, bb, line):
            k = op_const(op)
            if k is not None and "s" in k:
                out.append((k["s"], bb, line))

        for bb, bl in enumerate(self.blocks):
            for s in bl["s"]:
                if s[0] == "A":
                    for op in rvalue_operands(s[2]):
                        walk_op(op, bb, s[3])
            t = bl["term"]
            for op in t.get("args", []):
                walk_op(op, bb, t.get("line", 0))
        if include_promoted:
            for pr in self.promoted:
                for k in pr:
                    if "s" in k:
                        out.append((k["s"], None, 0))
        return out

    def where(self, bb=None):
        if bb is None:
            return "%s:%d" % (self.file, self.line)
        t = self.term(bb)
        return "%s:%d" % (self.file, t.get("line", self.line))

    def __repr__(self):
        return "<body %s>" % self.id


def rvalue_operands(rv):
    k = rv[0]
    if k in ("use", "rep", "box"):
        return [rv[1]]
    if k == "cast":
        return [rv[2]]
    if k == "bin":
        return [rv[2], rv[3]]
    if k == "un":
        return [rv[2]]
    if k == "agg":
        return list(rv[2])
    return []


def rvalue_places(rv):
    """places read by an rvalue (operands + ref/disc/cfd/ptr/len places)"""
    out = [op_place(o) for o in rvalue_operands(rv)]
    k = rv[0]
    if k in ("ref",):
        out.append(rv[2])
    elif k in ("ptr", "disc", "cfd"):
        out.append(rv[1])
    return [p for p in out if p is not None]


_INTERN = {}


def _intern(x):
    """share equal strings (the pickle then stores each distinct string once)"""
    if isinstance(x, str):
        y = _INTERN.get(x)
        if y is None:
            _INTERN[x] = x
            return x
        return y
    if isinstance(x, list):
        for i, v in enumerate(x):
            if isinstance(v, (str, list, dict)):
                x[i] = _intern(v)
        return x
    if isinstance(x, dict):
        for k in list(x.keys()):
            v = x[k]
            if isinstance(v, (str, list, dict)):
                x[k] = _intern(v)
        return x
    return x


def _prune(o):
    """drop what no analysis uses: StorageLive markers and the contents of cleanup (unwind-only) blocks; block indices are kept"""
    for bl in o["blocks"]:
        if bl.get("cleanup"):
            bl["s"] = []
            bl["term"] = {"t": "resume", "line": bl["term"].get("line", 0)}
        else:
            bl["s"] = [st for st in bl["s"] if st[0] != "SL"]


class Facts:
    def __init__(self, facts_dir):
        self.dir = facts_dir
        self.bodies = {}
        self.adts = {}
        self.consts = {}
        self.meta = {}
        self._children = None
        self._callers = None
        for fn in sorted(os.listdir(facts_dir)):
            if not fn.endswith(".facts"):
                continue
            with open(os.path.join(facts_dir, fn)) as fh:
                for line in fh:
                    o = _intern(json.loads(line))
                    k = o["k"]
                    if k == "body":
                        _prune(o)
                        self.bodies[o["id"]] = Body(o)
                    elif k == "adt":
                        self.adts[o["id"]] = o
                    elif k == "const":
                        self.consts[o["id"]] = o
                    elif k == "meta":
                        self.meta[o["crate"]] = o

    # ------------------------------------------------------------- lookup
    def find(self, pattern, crate=None):
        rx = re.compile(pattern)
        return [b for b in self.bodies.values() if rx.search(b.id) and (crate is None or b.crate == crate)]

    def one(self, pattern, crate=None):
        """exactly one body matching, else None"""
        r = self.find(pattern, crate)
        return r[0] if len(r) == 1 else None

    def get(self, id_):
        return self.bodies.get(id_)

    @property
    def children(self):
        if self._children is None:
            c = defaultdict(list)
            for b in self.bodies.values():
                if b.parent:
                    c[b.parent].append(b)
            self._children = c
        return self._children

    def descendants(self, body):
        """closures / coroutines nested (transitively) in body"""
        out = []
        stack = [body.id]
        while stack:
            x = stack.pop()
            for ch in self.children.get(x, []):
                out.append(ch)
                stack.append(ch.id)
        return out

    def family(self, body):
        return [body] + self.descendants(body)

    def root_fn(self, body):
        b = body
        while b.parent and b.parent in self.bodies:
            b = self.bodies[b.parent]
        return b

    def all_calls(self, noise=False):
        if getattr(self, "_all_calls", None) is None:
            self._all_calls = [c for b in self.bodies.values() for c in b.calls]
        for c in self._all_calls:
            if noise or not c.noise:
                yield c

    def callers_of(self, target):
        """non-noise calls whose resolved (or declared) callee is `target`"""
        idx = getattr(self, "_callers_idx", None)
        if idx is None:
            idx = defaultdict(list)
            for c in self.all_calls():
                idx[c.t.get("r") or c.f].append(c)
            self._callers_idx = idx
        return idx.get(target, [])

    def const_value(self, k):
        """integer value of a const operand dict (resolving named constants)"""
        if k is None:
            return None
        if "v" in k:
            return k["v"]
        if "named" in k:
            c = self.consts.get(k["named"])
            if c is not None and "v" in c:
                return c["v"]
        return None

    def const_str(self, k):
        if k is None:
            return None
        if "s" in k:
            return k["s"]
        if "named" in k:
            c = self.consts.get(k["named"])
            if c is not None and "s" in c:
                return c["s"]
        return None


def load(facts_dir):
    import gc
    pk = os.path.join(facts_dir, "facts.pickle")
    if os.path.exists(pk):
        try:
            gc.disable()
            with open(pk, "rb") as fh:
                return pickle.load(fh)
        except Exception:
            pass
        finally:
            gc.enable()
    gc.disable()
    try:
        f = Facts(facts_dir)
    finally:
        gc.enable()
    try:
        tmp = pk + ".%d" % os.getpid()
        with open(tmp, "wb") as fh:
            pickle.dump(f, fh, protocol=pickle.HIGHEST_PROTOCOL)
        os.rename(tmp, pk)
    except Exception:
        pass
    return f
