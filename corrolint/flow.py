"""Intra-procedural dataflow over the fact base: backward origin slices, forward taint,
reaching definitions, guard evaluation helpers."""
import re
from collections import defaultdict

from .facts import op_place, op_const, op_local, rvalue_operands, rvalue_places, Call

# Calls through which a value is considered "the same value" (by declared callee path).
# name regex -> argument indices that are followed
TRANSPARENT = [
    (r"^core::clone::Clone::clone$", (0,)),
    (r"^core::ops::deref::Deref(Mut)?::deref(_mut)?$", (0,)),
    (r"^core::ops::try_trait::Try::branch$", (0,)),
    (r"^core::ops::try_trait::FromResidual::from_residual$", (0,)),
    (r"^core::convert::(From::from|Into::into|AsRef::as_ref|AsMut::as_mut|TryFrom::try_from|TryInto::try_into)$", (0,)),
    (r"^core::borrow::Borrow(Mut)?::borrow(_mut)?$", (0,)),
    (r"^alloc::borrow::ToOwned::to_owned$", (0,)),
    (r"^alloc::string::ToString::to_string$", (0,)),
    (r"^core::option::Option::<T>::(as_ref|as_mut|as_deref|as_deref_mut|unwrap|expect|unwrap_or_default|cloned|copied|take|ok_or|ok_or_else|unwrap_unchecked|as_slice)$", (0,)),
    (r"^core::option::Option::<&T>::(cloned|copied)$", (0,)),
    (r"^core::option::Option::<&mut T>::(cloned|copied)$", (0,)),
    (r"^core::option::Option::<T>::(unwrap_or|unwrap_or_else)$", (0, 1)),
    (r"^core::result::Result::<T, E>::(as_ref|as_mut|unwrap|expect|ok|map_err|unwrap_or_default|unwrap_unchecked)$", (0,)),
    (r"^core::result::Result::<&T, E>::(cloned|copied)$", (0,)),
    (r"^core::future::into_future::IntoFuture::into_future$", (0,)),
    (r"^core::pin::Pin::<Ptr>::(new|new_unchecked|as_mut|get_mut|get_unchecked_mut|into_inner)$", (0,)),
    (r"^core::pin::Pin::<&'a mut T>::(get_mut|get_unchecked_mut)$", (0,)),
    (r"^core::future::future::Future::poll$", (0,)),
    (r"^alloc::boxed::Box::<T>::(new|pin)$", (0,)),
    (r"^alloc::sync::Arc::<T>::new$", (0,)),
    (r"^core::iter::traits::collect::IntoIterator::into_iter$", (0,)),
    (r"^core::iter::traits::iterator::Iterator::(next|peekable|cloned|copied|by_ref|rev|enumerate|skip|take|fuse)$", (0,)),
    (r"^core::iter::adapters::peekable::Peekable::<I>::(peek|peek_mut|next_if)$", (0,)),
    (r"^core::mem::(take|replace)$", (0,)),
    (r"^core::cmp::(min|max)$", (0, 1)),
    (r"^core::cmp::Ord::(min|max)$", (0, 1)),
    (r"^core::ops::range::RangeInclusive::<Idx>::(start|end|into_inner)$", (0,)),
    (r"^core::ops::range::RangeInclusive::<Idx>::new$", (0, 1)),
    (r"^core::slice::<impl \[T\]>::(iter|iter_mut|first|last|to_vec)$", (0,)),
    (r"^alloc::vec::Vec::<T, A>::(iter|iter_mut|as_slice|into_iter|drain)$", (0,)),
    (r"^core::task::poll::Poll::<T>::.*$", (0,)),
    (r"^alloc::fmt::format$", (0,)),
    (r"^core::hint::must_use$", (0,)),
    (r"^core::fmt::rt::<impl core::fmt::Arguments<'\w+>>::new_(v1|const|v1_formatted)$", (0,)),
    (r"^alloc::string::String::as_str$", (0,)),
    (r"^alloc::string::<impl core::ops::deref::Deref for alloc::string::String>::deref$", (0,)),
]
_TRANSPARENT_RX = [(re.compile(p), idx) for p, idx in TRANSPARENT]


def transparent_args(call, extra=None):
    f = call.f
    if extra:
        for rx, idx in extra:
            if rx.search(f) or rx.search(call.fi) or rx.search(call.r):
                return idx
    for rx, idx in _TRANSPARENT_RX:
        if rx.search(f):
            return idx
    return None


def compile_extra(table):
    return [(re.compile(p), idx) for p, idx in table]


def clean_path(proj):
    """projection list without derefs / opaque casts"""
    return [p for p in proj if p != "*" and p != "oc"]


class Origin:
    """leaf of a backward slice"""
    __slots__ = ("kind", "bb", "local", "path", "call", "const", "line")

    def __init__(self, kind, bb=None, local=None, path=(), call=None, const=None, line=0):
        self.kind, self.bb, self.local, self.path, self.call, self.const, self.line = kind, bb, local, tuple(path), call, const, line

    def key(self):
        return (self.kind, self.bb, self.local, self.path_names(), repr(self.const) if self.const else None)

    def path_names(self):
        out = []
        for p in self.path:
            if isinstance(p, list):
                if p[0] == "f":
                    out.append(p[2] if p[2] != "" else str(p[1]))
                elif p[0] == "d":
                    out.append("as:" + p[1])
                else:
                    out.append(p[0])
            else:
                out.append(str(p))
        return tuple(out)

    def field_names(self):
        return tuple(p[2] if p[2] != "" else str(p[1]) for p in self.path if isinstance(p, list) and p[0] == "f")

    def __repr__(self):
        if self.kind == "call":
            return "<origin call %s bb%d path=%s>" % (self.call.fi or self.call.f, self.bb, ".".join(self.path_names()))
        if self.kind == "const":
            return "<origin const %s>" % (self.const.get("s", self.const.get("v", self.const.get("named", self.const.get("t")))),)
        return "<origin %s _%s %s>" % (self.kind, self.local, ".".join(self.path_names()))

    def __hash__(self):
        return hash(self.key())

    def __eq__(self, o):
        return self.key() == o.key()


def _defs_reaching(body, local, at_bb, at_idx):
    """definitions of `local` that may reach program point (at_bb, before statement at_idx)."""
    defs = body.defs.get(local, [])
    if len(defs) <= 1 or at_bb is None:
        return defs
    whole = [d for d in defs if _is_whole_def(d)]
    out = []
    for d in defs:
        dbb, didx = d[0], d[1]
        dpos = 10 ** 9 if didx == "T" else didx
        apos = 10 ** 9 if at_idx == "T" else (at_idx if at_idx is not None else 10 ** 9)
        # blocks that kill d: other whole defs
        killers = set()
        same_block_killed = False
        for w in whole:
            if w is d:
                continue
            wbb, widx = w[0], w[1]
            wpos = 10 ** 9 if widx == "T" else widx
            if wbb == dbb and wpos > dpos:
                # a later whole def in the same block kills d for everything leaving the block
                if not (at_bb == dbb and dpos < apos <= wpos):
                    same_block_killed = True
            killers.add(wbb)
        if dbb == at_bb and dpos < apos:
            # straight-line within block: is there a whole def between?
            between = [w for w in whole if w is not d and w[0] == dbb and dpos < (10 ** 9 if w[1] == "T" else w[1]) < apos]
            if not between:
                out.append(d)
                continue
        if same_block_killed:
            continue
        # def at terminator: value available in successor blocks
        starts = body.succ[dbb] if True else []
        if didx == "T":
            t = body.term(dbb)
            starts = [t["tgt"]] if t.get("tgt") is not None else []
        kill_nodes = tuple(k for k in killers if k != at_bb and k != dbb)
        ok = False
        for s in starts:
            if s == at_bb:
                # reaching the start of at_bb; check no whole def in at_bb before apos
                pre = [w for w in whole if w is not d and w[0] == at_bb and (10 ** 9 if w[1] == "T" else w[1]) < apos]
                if not pre:
                    ok = True
                    break
                continue
            if s in kill_nodes:
                continue
            if at_bb in body.reachable(s, no_nodes=kill_nodes):
                pre = [w for w in whole if w is not d and w[0] == at_bb and (10 ** 9 if w[1] == "T" else w[1]) < apos]
                if not pre:
                    ok = True
                    break
        if ok:
            out.append(d)
    return out if out else defs


def _is_whole_def(d):
    if d[2] == "assign":
        return len(d[3][0]) == 1
    if d[2] == "call":
        return len(d[3].dest) == 1
    return True


def origins(body, place, at=None, extra_transparent=None, stop=None, max_steps=4000, through_fields=True, follow_partial=True):
    """Backward may-slice of `place` ([local, proj...]) to its leaf origins.

    at: (bb, idx) program point where the place is read (for reaching-definition precision)
    extra_transparent: compiled table from compile_extra()
    stop: optional predicate(Call) -> True to stop at that call (leaf) even if it is transparent
    Returns a set of Origin.
    """
    out = set()
    seen = set()
    work = [(place[0], tuple(map(_freeze, clean_path(place[1:]))), at)]
    steps = 0
    while work:
        local, path, pt = work.pop()
        key = (local, path, pt[0] if pt else None)
        if key in seen:
            continue
        seen.add(key)
        steps += 1
        if steps > max_steps:
            out.add(Origin("unknown", local=local, path=_thaw(path)))
            break
        defs = _defs_reaching(body, local, pt[0] if pt else None, pt[1] if pt else None)
        is_arg = 1 <= local <= body.argc
        if is_arg:
            # arguments have an implicit def at entry; explicit re-assignments are possible but rare
            out.add(Origin("arg", local=local, path=_thaw(path)))
            if not defs:
                continue
        if not defs and not is_arg:
            out.add(Origin("unknown", local=local, path=_thaw(path)))
            continue
        for d in defs:
            dbb, didx, kind, payload = d
            if kind == "yield":
                out.add(Origin("yield", bb=dbb, local=local, path=_thaw(path)))
                continue
            if kind == "call":
                call = payload
                dpath = tuple(map(_freeze, clean_path(call.dest[1:])))
                rest = _strip_prefix(path, dpath)
                if rest is None:
                    continue
                if call.f == "core::ops::try_trait::FromResidual::from_residual" and rest and rest[0][0] == "d" and rest[0][1] in ("Ok", "Some"):
                    continue  # `?` only ever produces Err / None: this def cannot provide an Ok / Some payload
                idxs = None if (stop and stop(call)) else transparent_args(call, extra_transparent)
                if idxs is None:
                    out.add(Origin("call", bb=dbb, local=local, path=_thaw(rest), call=call, line=call.line))
                else:
                    keep = _payload_path(call, rest)
                    for n_i, i in enumerate(idxs):
                        if i < len(call.args):
                            a = call.args[i]
                            p = op_place(a)
                            if p is not None:
                                work.append((p[0], tuple(map(_freeze, clean_path(p[1:]))) + (keep if n_i == 0 else ()), (dbb, "T")))
                            else:
                                out.add(Origin("const", bb=dbb, const=op_const(a), line=call.line))
                continue
            dplace, rv = payload
            dpath = tuple(map(_freeze, clean_path(dplace[1:])))
            if dpath and not follow_partial:
                continue
            rest = _strip_prefix(path, dpath)
            if rest is None:
                continue
            pt2 = (dbb, didx)
            k = rv[0]
            if k in ("use", "cast", "rep", "box"):
                op = rv[1] if k != "cast" else rv[2]
                p = op_place(op)
                if p is not None:
                    work.append((p[0], tuple(map(_freeze, clean_path(p[1:]))) + rest, pt2))
                else:
                    out.add(Origin("const", bb=dbb, const=op_const(op), line=_line(body, d)))
            elif k in ("ref", "ptr", "cfd"):
                p = rv[2] if k == "ref" else rv[1]
                work.append((p[0], tuple(map(_freeze, clean_path(p[1:]))) + rest, pt2))
            elif k == "disc":
                p = rv[1]
                work.append((p[0], tuple(map(_freeze, clean_path(p[1:]))), pt2))
            elif k in ("bin", "un"):
                for op in rvalue_operands(rv):
                    p = op_place(op)
                    if p is not None:
                        work.append((p[0], tuple(map(_freeze, clean_path(p[1:]))), pt2))
                    else:
                        out.add(Origin("const", bb=dbb, const=op_const(op), line=_line(body, d)))
            elif k == "agg":
                ops = rv[2]
                sel = None
                rest2 = rest
                if through_fields and rest:
                    r0 = rest[0]
                    # enum aggregate: path = downcast, field
                    if r0[0] == "d" and len(rest) > 1 and rest[1][0] == "f":
                        akind = rv[1]
                        if isinstance(akind, dict) and akind.get("variant") == r0[1]:
                            sel, rest2 = rest[1][1], rest[2:]
                        elif isinstance(akind, dict) and "variant" in akind:
                            continue  # other variant: this def does not provide the queried field
                    elif r0[0] == "f":
                        sel, rest2 = r0[1], rest[1:]
                if sel is not None and isinstance(rv[1], dict) and rv[1].get("fields") and len(rv[1]["fields"]) == 1 and len(ops) == 1 and "adt" in rv[1] and sel != 0:
                    # union / single active field aggregate
                    sel = 0
                if sel is not None and sel < len(ops):
                    cand = [ops[sel]]
                else:
                    cand = ops
                    rest2 = ()
                if not cand:
                    out.add(Origin("const", bb=dbb, const={"t": "agg", "agg": rv[1] if isinstance(rv[1], str) else rv[1].get("adt", rv[1].get("closure", "")) + "::" + rv[1].get("variant", "")}, line=_line(body, d)))
                for op in cand:
                    p = op_place(op)
                    if p is not None:
                        work.append((p[0], tuple(map(_freeze, clean_path(p[1:]))) + tuple(rest2), pt2))
                    else:
                        out.add(Origin("const", bb=dbb, const=op_const(op), line=_line(body, d)))
            elif k in ("null", "tlr"):
                out.add(Origin("const", bb=dbb, const={"t": k}, line=_line(body, d)))
            else:
                out.add(Origin("unknown", local=local, path=_thaw(path)))
    return out


_STRUCT_PRESERVING = re.compile(
    r"^core::ops::deref::Deref(Mut)?::deref(_mut)?$|^core::clone::Clone::clone$|^core::convert::As(Ref|Mut)::as_(ref|mut)$|"
    r"^core::borrow::Borrow(Mut)?::borrow(_mut)?$|^core::pin::Pin|^core::future::into_future::IntoFuture::into_future$|"
    r"^alloc::boxed::Box::<T>::(new|pin)$|^alloc::sync::Arc::<T>::new$|^alloc::borrow::ToOwned::to_owned$|^core::mem::(take|replace)$|"
    r"^core::iter::traits::collect::IntoIterator::into_iter$|^alloc::vec::Vec::<T, A>::(iter|iter_mut|into_iter|drain|as_slice)$|"
    r"^core::slice::<impl \[T\]>::(iter|iter_mut)$|^core::iter::traits::iterator::Iterator::(peekable|cloned|copied|by_ref|rev|skip|take|fuse)$")
_WRAPS_ENUM = re.compile(r"^core::ops::try_trait::Try::branch$|^core::future::future::Future::poll$|^core::iter::traits::iterator::Iterator::next$|"
                         r"^core::iter::adapters::peekable::Peekable::<I>::(peek|peek_mut|next_if)$")
_UNWRAPS = re.compile(r"^core::(option::Option|result::Result)::<.*>::(unwrap|expect|unwrap_or_default|unwrap_unchecked|as_ref|as_mut|as_deref|as_deref_mut|cloned|copied|take|ok|ok_or|ok_or_else|map_err|unwrap_or|unwrap_or_else)$")


def _payload_path(call, rest):
    """projection path to carry over to the followed argument of a transparent call"""
    f = call.f
    if not rest:
        return ()
    if _STRUCT_PRESERVING.search(f):
        return tuple(rest)
    if f == "core::ops::try_trait::Try::branch" and len(rest) >= 2 and rest[0][0] == "d" and rest[0][1] == "Continue" and rest[1][0] == "f" and call.args:
        # `x?`: the Continue payload is the Ok / Some payload of the operand (keeps the slice variant-sensitive behind `?`)
        l = op_local(call.args[0])
        aty = call.body.ty(l) if l is not None else ""
        if aty.startswith("core::result::Result<"):
            return (("d", "Ok", 0), ("f", 0, "0")) + tuple(rest[2:])
        if aty.startswith("core::option::Option<"):
            return (("d", "Some", 1), ("f", 0, "0")) + tuple(rest[2:])
    if _WRAPS_ENUM.search(f):
        # result is an enum wrapping the payload: (downcast, field 0, rest...) -> rest
        if len(rest) >= 2 and rest[0][0] == "d" and rest[1][0] == "f":
            return tuple(rest[2:])
        return ()
    if _UNWRAPS.search(f):
        # Option<T>/Result<T,_> -> T or the same wrapper: a leading (downcast, field) on the result stays logical
        r = list(rest)
        if len(r) >= 2 and r[0][0] == "d" and r[1][0] == "f":
            r = r[2:]
        return tuple(r)
    return ()


def _line(body, d):
    if d[2] == "assign":
        try:
            return body.blocks[d[0]]["s"][d[1]][3]
        except Exception:
            return 0
    return 0


def _freeze(p):
    return tuple(p) if isinstance(p, list) else p


def _thaw(path):
    return [list(p) if isinstance(p, tuple) else p for p in path]


def _strip_prefix(path, dpath):
    """query path `path` on local L, def writes L.dpath: returns remaining path if the def is relevant"""
    if not dpath:
        return path
    # def writes a sub-place; relevant if query covers it (query path is a prefix of dpath) or extends it
    n = min(len(path), len(dpath))
    for i in range(n):
        a, b = path[i], dpath[i]
        if a[0] != b[0]:
            return None
        if a[0] == "f" and a[1] != b[1]:
            return None
        if a[0] == "d" and a[2] != b[2]:
            return None
    if len(path) >= len(dpath):
        return path[len(dpath):]
    return ()


def origin_calls(orig):
    return [o.call for o in orig if o.kind == "call"]


# ------------------------------------------------------------------ forward taint

def taint(body, seed_locals, extra_transparent=None, through_all_calls=False, seed_places=None):
    """Forward may-closure: locals whose value may derive from the seeds.
    Returns (tainted_locals, sink_calls) where sink_calls = [(Call, [arg idx...])] for calls receiving
    tainted arguments."""
    tainted = set(seed_locals)
    seed_places = seed_places or []

    def place_tainted(p):
        if p[0] in tainted:
            return True
        for sp in seed_places:
            if sp[0] == p[0]:
                a = [tuple(x) if isinstance(x, list) else x for x in clean_path(sp[1:])]
                b = [tuple(x) if isinstance(x, list) else x for x in clean_path(p[1:])]
                m = min(len(a), len(b))
                if all(_same(a[i], b[i]) for i in range(m)):
                    return True
        return False

    changed = True
    while changed:
        changed = False
        for bb, bl in enumerate(body.blocks):
            for s in bl["s"]:
                if s[0] != "A":
                    continue
                dst = s[1][0]
                if dst in tainted:
                    continue
                if any(place_tainted(p) for p in rvalue_places(s[2])):
                    tainted.add(dst)
                    changed = True
            t = bl["term"]
            if t["t"] == "call":
                c = Call(body, bb, t)
                dst = t["dest"][0]
                if dst in tainted:
                    continue
                idxs = transparent_args(c, extra_transparent)
                if through_all_calls:
                    idxs = range(len(c.args))
                if idxs is None:
                    continue
                for i in idxs:
                    if i < len(c.args):
                        p = op_place(c.args[i])
                        if p is not None and place_tainted(p):
                            tainted.add(dst)
                            changed = True
                            break
            elif t["t"] == "yield":
                pass
    sinks = []
    for c in body.calls:
        idx = [i for i, a in enumerate(c.args) if op_place(a) is not None and place_tainted(op_place(a))]
        if idx:
            sinks.append((c, idx))
    return tainted, sinks


def _same(a, b):
    if a == b:
        return True
    if isinstance(a, tuple) and isinstance(b, tuple) and a[0] == b[0]:
        if a[0] == "f":
            return a[1] == b[1]
        if a[0] == "d":
            return a[2] == b[2]
    return False


# ------------------------------------------------------------------ branch helpers

def switch_on(body, bb):
    """for a SwitchInt block: (discr operand, {value: target}, otherwise)"""
    t = body.term(bb)
    if t["t"] != "sw":
        return None
    return t["d"], {v: b for v, b in t["targets"]}, t["else"]


def bool_edges(body, bb):
    """for a SwitchInt on a bool: (true_target, false_target) else None"""
    t = body.term(bb)
    if t["t"] != "sw" or t.get("dty") != "bool":
        return None
    m = {v: b for v, b in t["targets"]}
    if 0 in m:
        return t["else"], m[0]
    if 1 in m:
        return m[1], t["else"]
    return None


def call_result_switches(body, call, extra_transparent=None, max_depth=6):
    """SwitchInt blocks whose discriminant derives (by forward transparent flow incl. Not) from the result of `call`.
    Returns list of (bb, negated: bool)."""
    dest = call.dest[0]
    # forward propagate with negation tracking
    state = {dest: False}
    changed = True
    while changed:
        changed = False
        for bb, bl in enumerate(body.blocks):
            for s in bl["s"]:
                if s[0] != "A" or len(s[1]) != 1:
                    continue
                dst = s[1][0]
                if dst in state:
                    continue
                rv = s[2]
                if rv[0] in ("use", "cast"):
                    op = rv[1] if rv[0] == "use" else rv[2]
                    l = op_local(op)
                    if l in state and len(op_place(op)) == 1:
                        state[dst] = state[l]
                        changed = True
                elif rv[0] == "un" and rv[1] == "Not":
                    l = op_local(rv[2])
                    if l in state and len(op_place(rv[2])) == 1:
                        state[dst] = not state[l]
                        changed = True
    out = []
    for bb in body.live_blocks():
        t = body.term(bb)
        if t["t"] == "sw":
            l = op_local(t["d"])
            if l in state and len(op_place(t["d"])) == 1:
                out.append((bb, state[l]))
    return out


def true_false_targets(body, call):
    """For a bool-returning call: ([blocks entered when result is true], [.. false]) as CFG edges (u,v)."""
    te, fe = [], []
    for bb, neg in call_result_switches(body, call):
        e = bool_edges(body, bb)
        if e is None:
            continue
        t, f = e
        if neg:
            t, f = f, t
        te.append((bb, t))
        fe.append((bb, f))
    return te, fe


def try_edges(body, call_bb_of_branch):
    """For a `Try::branch` call at block b: returns (continue_edge, break_edge) = ((u,v),(u,v)) of the
    SwitchInt on its result's discriminant."""
    t = body.term(call_bb_of_branch)
    dest = t["dest"][0]
    nxt = t.get("tgt")
    # find discriminant read + switch following
    seen = set()
    b = nxt
    while b is not None and b not in seen:
        seen.add(b)
        disc_local = None
        for s in body.blocks[b]["s"]:
            if s[0] == "A" and s[2][0] == "disc" and s[2][1][0] == dest:
                disc_local = s[1][0]
        tt = body.term(b)
        if tt["t"] == "sw" and disc_local is not None and op_local(tt["d"]) == disc_local:
            m = {v: x for v, x in tt["targets"]}
            # ControlFlow: Continue = 0, Break = 1
            cont = m.get(0, tt["else"])
            brk = m.get(1, tt["else"])
            return (b, cont), (b, brk)
        if tt["t"] == "goto":
            b = tt["tgt"]
        else:
            break
    return None


def ok_edge_of(body, call, extra_transparent=None):
    """The CFG edge taken when the Result/Option produced by `call` (possibly through .await /
    map_err / `?`) is Ok/Some: finds the Try::branch consuming a value derived from call and returns its
    Continue edge; or a `match` SwitchInt on the discriminant of the derived value (Ok=0 / Some=1).
    Returns list of edges [(u,v)] (may be empty if not found)."""
    tainted, sinks = taint(body, [call.dest[0]], extra_transparent)
    edges = []
    for c, idx in sinks:
        if c.f == "core::ops::try_trait::Try::branch":
            e = try_edges(body, c.bb)
            if e:
                edges.append(e[0])
    edges += _direct_match_edges(body, tainted, ok=True)
    return _nearest_first(body, call.bb, edges)


def _direct_match_edges(body, tainted, ok):
    """`match r {Ok(..) .., Err(..) ..}` / `if let Err(e) = r {..}` written out instead of `?`: SwitchInt on the discriminant
    of a (whole) tainted local of Result / Option type"""
    out = []
    for bb in body.live_blocks():
        t = body.term(bb)
        if t["t"] != "sw":
            continue
        for s in body.blocks[bb]["s"]:
            if s[0] == "A" and s[2][0] == "disc" and op_local(t["d"]) == s[1][0] and len(s[2][1]) == 1 and s[2][1][0] in tainted:
                ty = body.ty(s[2][1][0])
                m = {v: x for v, x in t["targets"]}
                if ty.startswith("core::result::Result<"):
                    out.append((bb, m.get(0 if ok else 1, t["else"])))
                elif ty.startswith("core::option::Option<"):
                    out.append((bb, m.get(1 if ok else 0, t["else"])))
    return out


def _nearest_first(body, frm, edges):
    """order CFG edges: those whose source is dominated by block `frm` first, nearest (BFS distance from `frm`) first.
    (a value can reach several `?`: its own, and - as part of the error returned - an enclosing one)"""
    if len(edges) < 2:
        return edges
    dist = {frm: 0}
    q = [frm]
    while q:
        x = q.pop(0)
        for y in body.succ[x]:
            if y not in dist:
                dist[y] = dist[x] + 1
                q.append(y)
    return sorted(edges, key=lambda e: (0 if body.dominates(frm, e[0]) else 1, dist.get(e[0], 10 ** 9)))


def err_edge_of(body, call, extra_transparent=None):
    tainted, sinks = taint(body, [call.dest[0]], extra_transparent)
    edges = []
    for c, idx in sinks:
        if c.f == "core::ops::try_trait::Try::branch":
            e = try_edges(body, c.bb)
            if e:
                edges.append(e[1])
    edges += _direct_match_edges(body, tainted, ok=False)
    return _nearest_first(body, call.bb, edges)


def variant_edges(body, local_or_place, at_from=None):
    """SwitchInt edges on the discriminant of a place: returns list of (bb, {variant_value: target}, otherwise)"""
    if isinstance(local_or_place, int):
        local_or_place = [local_or_place]
    want = (local_or_place[0], tuple(map(_freeze, clean_path(local_or_place[1:]))))
    out = []
    for bb in body.live_blocks():
        disc = {}
        for s in body.blocks[bb]["s"]:
            if s[0] == "A" and s[2][0] == "disc":
                p = s[2][1]
                if (p[0], tuple(map(_freeze, clean_path(p[1:])))) == want:
                    disc[s[1][0]] = True
        t = body.term(bb)
        if t["t"] == "sw" and op_local(t["d"]) in disc:
            out.append((bb, {v: x for v, x in t["targets"]}, t["else"]))
    return out


# ------------------------------------------------------------------ guard evaluator (K9)

def _bool_taint(body, seeds):
    """locals whose (bool) value is computed from the seed locals through Use/Not/bit-ops, or that are
    assigned constants alongside such values (short-circuit temporaries)"""
    t = set(seeds)
    changed = True
    while changed:
        changed = False
        for bl in body.blocks:
            for s in bl["s"]:
                if s[0] != "A" or len(s[1]) != 1:
                    continue
                d = s[1][0]
                if d in t:
                    continue
                rv = s[2]
                if rv[0] in ("use", "un", "bin", "cast"):
                    for op in rvalue_operands(rv):
                        p = op_place(op)
                        if p is not None and len(p) == 1 and p[0] in t:
                            t.add(d)
                            changed = True
                            break
    # short-circuit temporaries: bool locals assigned right after a switch on a tracked local
    # (`a && b` lowers to: switch a { false => tmp = false, true => tmp = b })
    grew = True
    rounds = 0
    while grew and rounds < 4:
        grew = False
        rounds += 1
        for bb, bl in enumerate(body.blocks):
            tm = bl["term"]
            if tm["t"] != "sw" or op_local(tm["d"]) not in t:
                continue
            frontier = list(body.succ[bb])
            seen = set(frontier)
            depth = 0
            while frontier and depth < 3:
                nxt = []
                for x in frontier:
                    for s in body.blocks[x]["s"]:
                        if s[0] == "A" and len(s[1]) == 1 and body.ty(s[1][0]) == "bool" and s[1][0] not in t:
                            t.add(s[1][0])
                            grew = True
                    for y in body.succ[x]:
                        if y not in seen and body.term(x)["t"] == "goto":
                            seen.add(y)
                            nxt.append(y)
                frontier = nxt
                depth += 1
        if grew:
            changed = True
            while changed:
                changed = False
                for bl in body.blocks:
                    for s in bl["s"]:
                        if s[0] != "A" or len(s[1]) != 1 or s[1][0] in t:
                            continue
                        if s[2][0] in ("use", "un", "bin", "cast"):
                            for op in rvalue_operands(s[2]):
                                p = op_place(op)
                                if p is not None and len(p) == 1 and p[0] in t:
                                    t.add(s[1][0])
                                    changed = True
                                    break
    return t


def eval_guard(body, atom_vals, max_states=20000, start=0, env0=None, extra_tracked=(), no_nodes=(), frozen=(), stmt_vals=None):
    """Path-sensitive abstract walk of the CFG under a valuation of atom calls.

    atom_vals: {bb_of_call: bool}  — the value returned by the (bool-returning) call terminating block bb.
    Only bool locals derived from the atoms are tracked (finite state space). A SwitchInt on a tracked local
    with a known value follows one edge; everything else follows all normal successors.
    Returns (reachable_blocks, return_values) where return_values is the set of values of `_0` at `ret`
    terminators: True / False / None (unknown).
    """
    seeds = set()
    for bb in atom_vals:
        t = body.term(bb)
        if t["t"] == "call" and len(t["dest"]) == 1:
            seeds.add(t["dest"][0])
    stmt_vals = stmt_vals or {}
    for (sbb, sidx) in stmt_vals:
        st = body.blocks[sbb]["s"][sidx]
        if st[0] == "A" and len(st[1]) == 1:
            seeds.add(st[1][0])
    tracked = _bool_taint(body, seeds | set(extra_tracked))
    reach = set()
    rets = set()
    seen = set()
    stack = [(start, tuple(sorted((env0 or {}).items())))]
    n = 0
    while stack:
        bb, envt = stack.pop()
        if (bb, envt) in seen:
            continue
        seen.add((bb, envt))
        n += 1
        if n > max_states:
            # give up precision: everything reachable
            return body.live_blocks(), {None}
        reach.add(bb)
        env = dict(envt)
        for s_i, s in enumerate(body.blocks[bb]["s"]):
            if (bb, s_i) in stmt_vals and s[0] == "A" and len(s[1]) == 1:
                env[s[1][0]] = stmt_vals[(bb, s_i)]
                continue
            if s[0] == "A" and len(s[1]) == 1 and s[1][0] in frozen:
                continue
            if s[0] == "A" and len(s[1]) == 1 and s[1][0] in tracked:
                v = _eval_rv(s[2], env)
                if v is None:
                    env.pop(s[1][0], None)
                else:
                    env[s[1][0]] = v
            elif s[0] == "A" and len(s[1]) == 1 and s[1][0] == 0 and s[2][0] == "use":
                # return place of a bool closure
                v = _eval_rv(s[2], env)
                if v is None:
                    env.pop(0, None)
                else:
                    env[0] = v
        t = body.term(bb)
        k = t["t"]
        if k == "call":
            d = t["dest"]
            if bb in atom_vals and len(d) == 1:
                env[d[0]] = atom_vals[bb]
            elif len(d) == 1:
                env.pop(d[0], None)
            nxt = [t["tgt"]] if t.get("tgt") is not None else []
        elif k == "sw":
            l = op_local(t["d"])
            p = op_place(t["d"])
            nxt = None
            if l is not None and len(p) == 1 and l in env:
                v = 1 if env[l] else 0
                m = {a: b for a, b in t["targets"]}
                nxt = [m[v]] if v in m else [t["else"]]
            else:
                kk = op_const(t["d"])
                if kk is not None and "v" in kk:
                    m = {a: b for a, b in t["targets"]}
                    nxt = [m[kk["v"]]] if kk["v"] in m else [t["else"]]
            if nxt is None:
                nxt = body.succ[bb]
        elif k == "ret":
            rets.add(env.get(0))
            nxt = []
        else:
            nxt = body.succ[bb]
        et = tuple(sorted(env.items()))
        for s in nxt:
            if s in no_nodes:
                continue
            stack.append((s, et))
    return reach, rets


def _eval_rv(rv, env):
    k = rv[0]

    def val(op):
        c = op_const(op)
        if c is not None:
            if c.get("t") == "bool" and "v" in c:
                return bool(c["v"])
            return None
        p = op_place(op)
        if p is not None and len(p) == 1:
            return env.get(p[0])
        return None

    if k == "use":
        return val(rv[1])
    if k == "un" and rv[1] == "Not":
        v = val(rv[2])
        return None if v is None else (not v)
    if k == "bin":
        a, b = val(rv[2]), val(rv[3])
        op = rv[1]
        if op == "BitAnd":
            if a is False or b is False:
                return False
            if a is True and b is True:
                return True
        elif op == "BitOr":
            if a is True or b is True:
                return True
            if a is False and b is False:
                return False
        elif op == "Eq" and a is not None and b is not None:
            return a == b
        elif op in ("Ne", "BitXor") and a is not None and b is not None:
            return a != b
        return None
    return None


def effect_truth_table(body, atoms, effect_blocks):
    """atoms: list of call blocks (bool-returning calls). Returns {valuation tuple: bool effect reachable}"""
    import itertools
    out = {}
    for vals in itertools.product((False, True), repeat=len(atoms)):
        reach, _ = eval_guard(body, dict(zip(atoms, vals)))
        out[vals] = any(e in reach for e in effect_blocks)
    return out


def return_truth_table(body, atoms):
    """for a bool-returning body: {valuation: set of possible return values}"""
    import itertools
    out = {}
    for vals in itertools.product((False, True), repeat=len(atoms)):
        _, rets = eval_guard(body, dict(zip(atoms, vals)))
        out[vals] = rets
    return out


# ------------------------------------------------------------------ finite orderings (K9)
_CMP_NAMES = {"lt", "le", "gt", "ge", "eq", "ne"}


def is_compare(call):
    return call.f in ("core::cmp::PartialOrd::lt", "core::cmp::PartialOrd::le", "core::cmp::PartialOrd::gt",
                      "core::cmp::PartialOrd::ge", "core::cmp::PartialEq::eq", "core::cmp::PartialEq::ne")


def compare_value(name, ordering, a_first=True):
    """truth value of `X <name> Y` where (X,Y) = (A,B) if a_first else (B,A), given the ordering of A vs B"""
    o = ordering if a_first else {"<": ">", ">": "<", "=": "="}[ordering]
    return {"lt": o == "<", "le": o in "<=", "gt": o == ">", "ge": o in ">=", "eq": o == "=", "ne": o != "="}[name]


def ordering_valuations(cmps):
    """cmps: list of (Call, a_first: bool). returns {'<': {bb: bool}, '=': {...}, '>': {...}}"""
    out = {}
    for o in ("<", "=", ">"):
        out[o] = {c.bb: compare_value(c.name(), o, a_first) for c, a_first in cmps}
    return out


def eval_reach(body, atom_vals, no_nodes=(), start=0, env0=None):
    """eval_guard that never enters the blocks in no_nodes; returns (reachable blocks, return values)"""
    return eval_guard(body, atom_vals, start=start, env0=env0, no_nodes=set(no_nodes))


# ------------------------------------------------------------------ integer compare switches
def int_compare_switches(body, src_local):
    """SwitchInt blocks deciding on `src_local <op> const` (through casts / copies).
    returns [(sw_bb, op, const, target_when_true, target_when_false, src_is_lhs)]"""
    alias = {src_local}
    changed = True
    while changed:
        changed = False
        for bl in body.blocks:
            for s in bl["s"]:
                if s[0] == "A" and len(s[1]) == 1 and s[1][0] not in alias and s[2][0] in ("use", "cast"):
                    op = s[2][1] if s[2][0] == "use" else s[2][2]
                    p = op_place(op)
                    if p is not None and len(p) == 1 and p[0] in alias:
                        alias.add(s[1][0])
                        changed = True
    cmp_locals = {}
    for bl in body.blocks:
        for s in bl["s"]:
            if s[0] == "A" and len(s[1]) == 1 and s[2][0] == "bin" and s[2][1] in ("Eq", "Ne", "Lt", "Le", "Gt", "Ge"):
                a, b = s[2][2], s[2][3]
                la, lb = op_local(a), op_local(b)
                ka, kb = op_const(a), op_const(b)
                if la in alias and kb is not None and "v" in kb:
                    cmp_locals[s[1][0]] = (s[2][1], kb["v"], True)
                elif lb in alias and ka is not None and "v" in ka:
                    cmp_locals[s[1][0]] = (s[2][1], ka["v"], False)
    # propagate through Not / copies
    neg = {l: False for l in cmp_locals}
    changed = True
    while changed:
        changed = False
        for bl in body.blocks:
            for s in bl["s"]:
                if s[0] == "A" and len(s[1]) == 1 and s[1][0] not in cmp_locals:
                    if s[2][0] == "use":
                        l = op_local(s[2][1])
                        if l in cmp_locals and len(op_place(s[2][1])) == 1:
                            cmp_locals[s[1][0]] = cmp_locals[l]
                            neg[s[1][0]] = neg[l]
                            changed = True
                    elif s[2][0] == "un" and s[2][1] == "Not":
                        l = op_local(s[2][2])
                        if l in cmp_locals:
                            cmp_locals[s[1][0]] = cmp_locals[l]
                            neg[s[1][0]] = not neg[l]
                            changed = True
    out = []
    for bb in body.live_blocks():
        t = body.term(bb)
        if t["t"] == "sw":
            l = op_local(t["d"])
            if l in cmp_locals and len(op_place(t["d"])) == 1:
                e = bool_edges(body, bb)
                if e is None:
                    continue
                tt, ft = e
                if neg[l]:
                    tt, ft = ft, tt
                op, k, lhs = cmp_locals[l]
                out.append((bb, op, k, tt, ft, lhs))
    return out


def int_relation_holds(op, k, lhs, value):
    """truth of `value op k` (or `k op value` when not lhs)"""
    a, b = (value, k) if lhs else (k, value)
    return {"Eq": a == b, "Ne": a != b, "Lt": a < b, "Le": a <= b, "Gt": a > b, "Ge": a >= b}[op]


# ------------------------------------------------------------------ variant-sensitive reachability
def variant_reach(body, start, no_nodes=(), no_edges=(), max_states=200000, assume=None):
    """Blocks reachable from `start` when the variant of every local that is assigned *whole* ADT aggregates
    (`x = Some(..)` / `x = None`) is tracked along the path and a later `match x` follows only the matching arm.
    Removes the classic infeasible path `let m = if c {Some(..)} else {None}; if let Some(..) = m {..}`.
    `assume` = {bool local: value} seeds known booleans (e.g. the result of a comparison call): they are propagated through
    copies and `!`, decide `switchInt` on them, and give `bool::then / then_some` a known variant (Some iff true).
    Sound over-approximation otherwise: unknown -> all arms; any other write to a tracked local forgets it."""
    tracked = {}
    for bb, bl in enumerate(body.blocks):
        for s in bl["s"]:
            if s[0] == "A" and len(s[1]) == 1 and s[2][0] == "agg" and isinstance(s[2][1], dict) and "vidx" in s[2][1]:
                tracked.setdefault(s[1][0], True)
        t = bl["term"]
        if t["t"] == "call" and t.get("dest") and len(t["dest"]) == 1 and (
                t.get("f", "").startswith("core::bool::<impl bool>::then")
                or t.get("f") in ("core::ops::try_trait::FromResidual::from_residual", "core::ops::try_trait::Try::branch")):
            tracked.setdefault(t["dest"][0], True)
    # locals receiving a whole move/copy of a tracked local (`let m = if .. {a} else {b}` joins), the single payload of a tracked
    # aggregate, or its unwrapped payload `(w as V).0`, are tracked too
    grew = True
    while grew:
        grew = False
        for bl in body.blocks:
            for s in bl["s"]:
                if s[0] == "A" and len(s[1]) == 1 and s[1][0] not in tracked and s[2][0] == "use":
                    p = op_place(s[2][1])
                    if p is not None and p[0] in tracked and (len(p) == 1 or (len(p) == 3 and isinstance(p[1], list) and p[1][0] == "d" and isinstance(p[2], list) and p[2][0] == "f")):
                        tracked[s[1][0]] = True
                        grew = True
    mut_borrowed = set()
    for bb, bl in enumerate(body.blocks):
        for s in bl["s"]:
            if s[0] == "A" and s[2][0] == "ref" and s[2][1] != "shared" and s[2][2][0] in tracked:
                mut_borrowed.add(s[2][2][0])
    for l in mut_borrowed:
        tracked.pop(l, None)
    no_nodes, no_edges = set(no_nodes), set(no_edges)
    seen_blocks = set()
    seen = set()
    if start in no_nodes:
        return seen_blocks
    env0 = frozenset((("b", l), bool(v)) for l, v in (assume or {}).items())
    stack = [(start, env0)]
    while stack:
        if len(seen) > max_states:
            return body.reachable(start, no_nodes=no_nodes, no_edges=no_edges)
        bb, env = stack.pop()
        if (bb, env) in seen:
            continue
        seen.add((bb, env))
        seen_blocks.add(bb)
        e = dict(env)
        disc = {}
        for s in body.blocks[bb]["s"]:
            if s[0] == "SD":
                # a dead local carries no knowledge (keeps the state space small)
                e.pop(s[1], None)
                e.pop(("b", s[1]), None)
                continue
            if s[0] != "A":
                continue
            dst = s[1]
            rv = s[2]
            whole = len(dst) == 1
            if whole:
                e.pop(("b", dst[0]), None)
            if whole and dst[0] in tracked and rv[0] == "agg" and isinstance(rv[1], dict) and "vidx" in rv[1]:
                e[dst[0]] = rv[1]["vidx"]
                # remember the variant of a single payload (`Poll::Ready(r)`, `Some(r)`) so `match` on the unwrapped payload stays precise
                e.pop(("p", dst[0]), None)
                if len(rv[2]) == 1:
                    pp = op_place(rv[2][0])
                    if pp is not None and len(pp) == 1 and pp[0] in e:
                        e[("p", dst[0])] = e[pp[0]]
            elif dst[0] in tracked:
                e.pop(dst[0], None)
                e.pop(("p", dst[0]), None)
            if rv[0] == "disc" and len(rv[1]) == 1 and rv[1][0] in tracked and whole:
                disc[dst[0]] = rv[1][0]
            if whole and rv[0] == "use" and op_place(rv[1]) is not None and len(op_place(rv[1])) == 1:
                src = op_place(rv[1])[0]
                if src in e and dst[0] in tracked:
                    e[dst[0]] = e[src]
                    if ("p", src) in e:
                        e[("p", dst[0])] = e[("p", src)]
                if ("b", src) in e:
                    e[("b", dst[0])] = e[("b", src)]
            elif whole and rv[0] == "use" and op_place(rv[1]) is not None and len(op_place(rv[1])) == 3 and dst[0] in tracked:
                # `x = (w as Variant).0` with a remembered payload variant
                pp = op_place(rv[1])
                if isinstance(pp[1], list) and pp[1][0] == "d" and isinstance(pp[2], list) and pp[2][0] == "f" and pp[2][1] == 0 \
                        and ("p", pp[0]) in e and e.get(pp[0]) == pp[1][2]:
                    e[dst[0]] = e[("p", pp[0])]
            if whole and rv[0] == "un" and rv[1] == "Not" and op_place(rv[2]) is not None and len(op_place(rv[2])) == 1 and ("b", op_place(rv[2])[0]) in e:
                e[("b", dst[0])] = not e[("b", op_place(rv[2])[0])]
        t = body.term(bb)
        if t["t"] == "call" and t.get("dest"):
            d0 = t["dest"][0]
            e.pop(("b", d0), None)
            if d0 in tracked:
                e.pop(d0, None)
                if t.get("f", "").startswith("core::bool::<impl bool>::then") and len(t["dest"]) == 1 and t.get("args"):
                    a0 = op_place(t["args"][0])
                    if a0 is not None and len(a0) == 1 and ("b", a0[0]) in e:
                        e[d0] = 1 if e[("b", a0[0])] else 0
                elif t.get("f") == "core::ops::try_trait::FromResidual::from_residual" and len(t["dest"]) == 1:
                    # `?` on the error path: Result -> Err (1), Option -> None (0)
                    dty = t.get("dty", "")
                    if dty.startswith("core::result::Result<"):
                        e[d0] = 1
                    elif dty.startswith("core::option::Option<"):
                        e[d0] = 0
                elif t.get("f") == "core::ops::try_trait::Try::branch" and len(t["dest"]) == 1 and t.get("args"):
                    a0 = op_place(t["args"][0])
                    if a0 is not None and len(a0) == 1 and a0[0] in e:
                        v = e[a0[0]]
                        aty = body.ty(a0[0])
                        if aty.startswith("core::result::Result<"):
                            e[d0] = v            # Ok(0) -> Continue(0), Err(1) -> Break(1)
                        elif aty.startswith("core::option::Option<"):
                            e[d0] = 0 if v == 1 else 1   # Some(1) -> Continue(0), None(0) -> Break(1)
        succs = list(body.succ[bb])
        if t["t"] == "sw":
            dl = op_local(t["d"])
            m = {val: x for val, x in t["targets"]}
            if dl in disc and disc[dl] in e and len(op_place(t["d"])) == 1:
                succs = [m.get(e[disc[dl]], t["else"])]
            elif dl is not None and ("b", dl) in e and len(op_place(t["d"])) == 1 and t.get("dty") == "bool":
                succs = [m.get(1 if e[("b", dl)] else 0, t["else"])]
        fe = frozenset(e.items())
        for s_ in succs:
            if s_ in no_nodes or (bb, s_) in no_edges:
                continue
            if (s_, fe) not in seen:
                stack.append((s_, fe))
    return seen_blocks


def vdominates(body, a, b):
    """variant-sensitive dominance: `b` is unreachable from the entry once block `a` is removed, discounting paths on which an
    `Err`/`None` produced by `?` (or a known aggregate variant) is later matched as `Ok`/`Some` (and vice versa)"""
    if body.dominates(a, b):
        return True
    cache = body.__dict__.setdefault("_vdom_cache", {})
    r = cache.get(a)
    if r is None:
        r = variant_reach(body, 0, no_nodes=(a,))
        cache[a] = r
    return b not in r


def vedge_dominates(body, edge, b):
    """variant-sensitive edge dominance: `b` is unreachable from the entry once the CFG edge is removed (see vdominates)"""
    if body.edge_dominates(edge, b):
        return True
    return b not in variant_reach(body, 0, no_edges=[edge])
