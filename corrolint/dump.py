"""debug helper: python3 -m corrolint.dump <body-id-regex> [--all] : print MIR facts of matching bodies"""
import json, sys, os, glob
from . import facts as fx

def fmt_place(b, p):
    s = "_%d" % p[0]
    n = b.names.get(p[0])
    if n: s += "{%s}" % n
    for x in p[1:]:
        if x == "*": s = "(*%s)" % s
        elif isinstance(x, list) and x[0] == "f": s += ".%s" % (x[2] or x[1])
        elif isinstance(x, list) and x[0] == "d": s = "(%s as %s)" % (s, x[1])
        elif isinstance(x, list) and x[0] == "i": s += "[_%d]" % x[1]
        else: s += ".%s" % (x,)
    return s

def fmt_op(b, o):
    if o[0] in ("c", "m"):
        return ("move " if o[0] == "m" else "") + fmt_place(b, o[1])
    k = o[1]
    for key in ("s", "v", "fn", "closure", "named", "promoted"):
        if key in k:
            return "const %s=%r" % (key, k[key])
    return "const<%s>" % k.get("t")

def fmt_rv(b, rv):
    k = rv[0]
    if k == "use": return fmt_op(b, rv[1])
    if k == "ref": return "&%s %s" % (rv[1], fmt_place(b, rv[2]))
    if k in ("ptr", "disc", "cfd"): return "%s(%s)" % (k, fmt_place(b, rv[1]))
    if k == "cast": return "%s as %s (%s)" % (fmt_op(b, rv[2]), rv[3], rv[1])
    if k == "bin": return "%s(%s, %s)" % (rv[1], fmt_op(b, rv[2]), fmt_op(b, rv[3]))
    if k == "un": return "%s(%s)" % (rv[1], fmt_op(b, rv[2]))
    if k == "agg":
        kind = rv[1]
        if isinstance(kind, dict):
            kind = kind.get("adt", kind.get("closure", kind.get("coroutine", "?"))) + ("::" + kind["variant"] if "variant" in kind else "")
        return "%s{%s}" % (kind, ", ".join(fmt_op(b, o) for o in rv[2]))
    return json.dumps(rv)

def dump(b, show_noise=False, out=sys.stdout):
    print("=== %s  [%s %s] %s:%d argc=%d" % (b.id, b.kind, b.co, b.file, b.line, b.argc), file=out)
    live = b.live_blocks()
    for i, bl in enumerate(b.blocks):
        if i not in live and not show_noise: continue
        t = bl["term"]
        noise = bool(t.get("mac")) and any(m in fx.NOISE_MACROS for m in t.get("mac"))
        print(" bb%d%s:" % (i, " (cleanup)" if bl.get("cleanup") else ""), file=out)
        for s in bl["s"]:
            if s[0] == "A": print("    %s = %s   // L%d" % (fmt_place(b, s[1]), fmt_rv(b, s[2]), s[3]), file=out)
            elif s[0] == "SD": print("    StorageDead(_%d)" % s[1], file=out)
            elif s[0] == "SL": pass
            else: print("    %s" % json.dumps(s), file=out)
        k = t["t"]
        if k == "call":
            print("    %s = %s(%s) -> bb%s  // L%d %s%s" % (fmt_place(b, t["dest"]), t.get("fi") or t.get("f"), ", ".join(fmt_op(b, a) for a in t["args"]), t.get("tgt"), t.get("line", 0), ("r=" + t["r"]) if "r" in t else "", " mac=%s" % t.get("mac") if t.get("mac") else ""), file=out)
        elif k == "sw":
            print("    switch %s [%s] else bb%d  // L%d" % (fmt_op(b, t["d"]), ", ".join("%d->bb%d" % (v, x) for v, x in t["targets"]), t["else"], t.get("line", 0)), file=out)
        elif k == "drop":
            print("    drop(%s) -> bb%s" % (fmt_place(b, t["p"]), t.get("tgt")), file=out)
        elif k == "yield":
            print("    yield -> bb%s (resume arg %s)" % (t.get("tgt"), fmt_place(b, t["arg"])), file=out)
        elif k == "assert":
            print("    assert(%s == %s, %s) -> bb%s" % (fmt_op(b, t["cond"]), t["exp"], t["msg"], t.get("tgt")), file=out)
        else:
            print("    %s%s" % (k, (" -> bb%s" % t["tgt"]) if "tgt" in t else ""), file=out)

if __name__ == "__main__":
    import re
    from . import extract as ex
    F = fx.load(ex.latest_facts_dir())
    pat = sys.argv[1]
    for b in F.find(pat):
        dump(b, "--all" in sys.argv)
