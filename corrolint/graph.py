"""Inter-procedural layer: call graph over workspace bodies (await-aware through resolved `poll`
callees), resource (lock / connection / permit) classification by type, held-resource dataflow,
may-acquire summaries, execution-context (async / blocking) analysis."""
import re
from collections import defaultdict

from .facts import op_place, op_const, op_local, Call, rvalue_operands, rvalue_places
from .flow import transparent_args

# ------------------------------------------------------------------ type-string utilities


def split_top(s, sep=","):
    """split on sep at bracket depth 0"""
    out, depth, cur = [], 0, []
    i = 0
    while i < len(s):
        ch = s[i]
        if ch in "<([{":
            depth += 1
        elif ch in ">)]}":
            if ch == ">" and i > 0 and s[i - 1] == "-":
                pass  # '->'
            else:
                depth -= 1
        if ch == sep and depth == 0:
            out.append("".join(cur).strip())
            cur = []
        else:
            cur.append(ch)
        i += 1
    if cur:
        out.append("".join(cur).strip())
    return out


def strip_indirect(ty):
    """remove sub-types that sit behind a reference, raw pointer, `impl`, `dyn` or fn pointer:
    a value of the remaining type string *owns* what is named in it."""
    out = []
    i, n = 0, len(ty)
    while i < n:
        at_start = i == 0 or ty[i - 1] in "<(, ["
        if at_start and (ty.startswith("&", i) or ty.startswith("impl ", i) or ty.startswith("dyn ", i)
                         or ty.startswith("*const ", i) or ty.startswith("*mut ", i) or ty.startswith("for<", i)
                         or ty.startswith("fn(", i) or ty.startswith("unsafe fn(", i) or ty.startswith("{closure", i)
                         or ty.startswith("{async", i) or ty.startswith("{coroutine", i)):
            # skip to the end of this type: next ',' or closing bracket at depth 0
            depth = 0
            j = i
            while j < n:
                ch = ty[j]
                if ch in "<([{":
                    depth += 1
                elif ch in ">)]}":
                    if ch == ">" and ty[j - 1] == "-":
                        pass
                    elif depth == 0:
                        break
                    else:
                        depth -= 1
                elif ch == "," and depth == 0:
                    break
                j += 1
            out.append("_")
            i = j
            continue
        out.append(ty[i])
        i += 1
    return "".join(out)


def generic_arg(ty, start):
    """ty[start] == '<' : returns (inner, end_index_after_'>')"""
    depth = 0
    j = start
    while j < len(ty):
        ch = ty[j]
        if ch in "<([{":
            depth += 1
        elif ch in ">)]}":
            if ch == ">" and ty[j - 1] == "-":
                pass
            else:
                depth -= 1
                if depth == 0:
                    return ty[start + 1:j], j + 1
        j += 1
    return ty[start + 1:], len(ty)


def short(ty):
    """last path segment of the head of a type, generics dropped"""
    head = ty.split("<", 1)[0]
    return head.rsplit("::", 1)[-1]


OWNING_WRAPPERS = {
    "core::option::Option", "core::result::Result", "core::task::poll::Poll",
    "core::ops::control_flow::ControlFlow", "alloc::boxed::Box", "core::mem::manually_drop::ManuallyDrop",
    "core::mem::maybe_uninit::MaybeUninit", "core::pin::Pin", "alloc::vec::Vec", "smallvec::SmallVec",
    "core::cell::RefCell", "core::cell::Cell",
}

_LIFETIME = re.compile(r"'[a-z_][a-z0-9_]*\s*,?\s*")


def _norm_inner(t):
    return _LIFETIME.sub("", t).strip()


def type_head_args(ty):
    """'a::B<X, Y>' -> ('a::B', ['X','Y']);  '(A, B)' -> ('()', ['A','B']); refs/impl/dyn -> (None, [])"""
    ty = ty.strip()
    if not ty:
        return None, []
    if ty[0] in "&*" or ty.startswith(("impl ", "dyn ", "for<", "fn(", "unsafe ", "extern ", "{")):
        return None, []
    if ty[0] == "(":
        inner = ty[1:-1] if ty.endswith(")") else ty[1:]
        return "()", [a for a in split_top(inner) if a]
    if ty[0] == "[":
        inner = ty[1:-1]
        return "[]", [split_top(inner, ";")[0]]
    if ty[0] == "<":
        return None, []
    i = ty.find("<")
    if i < 0:
        return ty, []
    inner, end = generic_arg(ty, i)
    return ty[:i], [a for a in split_top(inner) if a]


def classify_guard(head, args):
    """(class, mode) if `head<args>` is a lock guard / connection / permit type"""
    targs = [a for a in args if not a.startswith("'")]
    prot = _norm_inner(targs[-1]) if targs else "?"
    mode = "r" if ("ReadGuard" in head or "UpgradableRead" in head) else "w"
    if head == "klukai_types::agent::WriteConn":
        return ("conn", "w")
    if re.match(r"klukai_types::agent::Counted(Owned)?TokioRwLock(Read|Write)Guard$", head):
        if prot.endswith("BookedVersions"):
            return ("booked", mode)
        if prot.endswith("BookieInner"):
            return ("bookie", mode)
        return ("counted<%s>" % short(prot), mode)
    if re.match(r"lock_api::rwlock::(Arc|Mapped)?RwLock(Read|Write|UpgradableRead)Guard$", head):
        return ("pl:" + short(prot), mode)
    if re.match(r"lock_api::mutex::(Arc|Mapped)?MutexGuard$", head):
        return ("plm:" + short(prot), "w")
    if re.match(r"tokio::sync::rwlock::\w+::(Owned)?(Mapped)?RwLock(Mapped)?(Read|Write)Guard$", head):
        return ("tk:" + _tk_name(prot), mode)
    if re.match(r"tokio::sync::mutex::(Owned|Mapped)?(Mapped)?MutexGuard$", head):
        return ("tkm:" + _tk_name(prot), "w")
    if re.match(r"std::sync::(poison::)?(mutex::)?MutexGuard$", head):
        return ("std:" + short(prot), "w")
    if re.match(r"std::sync::(poison::)?(rwlock::)?RwLock(Read|Write)Guard$", head):
        return ("std:" + short(prot), mode)
    if re.match(r"tokio::sync::semaphore::(Owned)?SemaphorePermit$", head):
        return ("permit", "w")
    if head == "deadpool::managed::Object":
        return ("poolconn:" + ("crconn" if "CrConn" in prot else short(prot.split("<", 1)[-1].rstrip(">"))), "w")
    return None


_FG_CACHE = {}


def find_guards(ty, owned_only=True):
    """list of (class, mode) for every guard-typed component *owned* by a value of type ty
    (descends only through Option/Result/Poll/ControlFlow/Box/tuples/Vec)."""
    r = _FG_CACHE.get(ty)
    if r is not None:
        return r
    out = []

    def walk(t, depth):
        if depth > 8:
            return
        head, args = type_head_args(t)
        if head is None:
            return
        g = classify_guard(head, args) if head not in ("()", "[]") else None
        if g is not None:
            out.append(g)
            return
        if head in ("()", "[]") or head in OWNING_WRAPPERS:
            for a in args:
                if not a.startswith("'"):
                    walk(a, depth + 1)

    walk(ty, 0)
    _FG_CACHE[ty] = out
    return out


def _tk_name(prot):
    s = short(prot)
    if s == "HashMap":
        # distinguish the broadcast caches by payload
        inner = prot
        if "QueryEventMeta" in inner:
            return "SubsBcastCache"
        if "SocketAddr" in inner:
            return "TransportConns"
        if "Sender<bytes::bytes::Bytes>" in inner:
            return "UpdatesBcastCache"
    return s


SYNC_GUARD_PREFIX = ("pl:", "plm:", "std:")  # guards that must not live across an await

# external functions that run their closure / future argument elsewhere (not while the caller waits)
SPAWNERS = re.compile(
    r"^(tokio::task::spawn::spawn|tokio::task::spawn::spawn_local|tokio::task::blocking::spawn_blocking|"
    r"tokio::runtime::handle::Handle::spawn(_blocking)?|tokio::runtime::runtime::Runtime::spawn|"
    r"std::thread::spawn|std::thread::Builder::spawn|klukai_types::spawn::spawn_counted|"
    r"tokio::task::join_set::JoinSet::<T>::spawn|tokio::task::builder::Builder::<'a>::spawn)")
BLOCKING_RUNNERS = re.compile(
    r"^(tokio::task::blocking::block_in_place|tokio::task::blocking::spawn_blocking|std::thread::spawn|"
    r"std::thread::Builder::spawn|tokio::runtime::handle::Handle::spawn_blocking)")


class Graph:
    def __init__(self, facts):
        self.F = facts
        self._callees = {}
        self._callers = None
        self._held = {}
        self._events = {}
        self._may_acquire = None
        self._closure_args = {}
        self._ctx = None

    # ------------------------------------------------------------- call graph
    def closure_operands(self, body):
        """(bb, Call or None, child_body_id, how) for closures/coroutines/fn-items created in body and
        the calls they are handed to.  how: 'agg' (created) | 'arg' (passed to call)"""
        c = self._closure_args.get(body.id)
        if c is not None:
            return c
        created = {}  # local -> child id
        for bb, bl in enumerate(body.blocks):
            for s in bl["s"]:
                if s[0] == "A" and s[2][0] == "agg" and isinstance(s[2][1], dict):
                    k = s[2][1]
                    cid = k.get("closure") or k.get("coroutine") or k.get("coroutine_closure")
                    if cid and len(s[1]) == 1:
                        created[s[1][0]] = cid
        # propagate through simple moves / refs
        changed = True
        while changed:
            changed = False
            for bb, bl in enumerate(body.blocks):
                for s in bl["s"]:
                    if s[0] == "A" and len(s[1]) == 1 and s[1][0] not in created:
                        rv = s[2]
                        src = None
                        if rv[0] in ("use",):
                            src = op_place(rv[1])
                        elif rv[0] == "cast":
                            src = op_place(rv[2])
                        elif rv[0] == "ref":
                            src = rv[2]
                        if src is not None and len([p for p in src[1:] if p != "*"]) == 0 and src[0] in created:
                            created[s[1][0]] = created[src[0]]
                            changed = True
        out = []
        for c in body.calls:
            for i, a in enumerate(c.args):
                p = op_place(a)
                k = op_const(a)
                if p is not None and p[0] in created and len([x for x in p[1:] if x != "*"]) == 0:
                    out.append((c, created[p[0]], i))
                elif k is not None:
                    cid = k.get("closure") or k.get("fn_res") or k.get("fn")
                    if cid and cid in self.F.bodies:
                        out.append((c, cid, i))
        self._closure_args[body.id] = (out, created)
        return out, created

    def callees(self, body):
        """list of (Call, callee_body, kind) for local callees. kind: 'call' | 'poll' | 'closure_sync' |
        'spawn' (closure/future handed to a spawner: runs elsewhere)"""
        r = self._callees.get(body.id)
        if r is not None:
            return r
        out = []
        for c in body.calls:
            tgt = c.t.get("r") or c.f
            b = self.F.bodies.get(tgt)
            if b is not None:
                kind = "poll" if c.f == "core::future::future::Future::poll" else "call"
                out.append((c, b, kind))
            # a call of an `async fn` creates its future; the body runs when polled. If the poll is not
            # visible here (future handed to an external combinator) treat the call as running the body.
        passed, created = self.closure_operands(body)
        for c, cid, i in passed:
            b = self.F.bodies.get(cid)
            if b is None:
                continue
            if self.F.bodies.get(c.t.get("r") or c.f) is not None and not SPAWNERS.search(c.f):
                # handed to a local function: the local callee decides; approximate as sync call
                out.append((c, b, "closure_sync"))
            elif SPAWNERS.search(c.f):
                out.append((c, b, "spawn"))
            else:
                out.append((c, b, "closure_sync"))
        # futures of local async fns handed to external combinators (timeout(fut), select, join...)
        fut_locals = {}
        for c in body.calls:
            tgt = c.t.get("r") or c.f
            b = self.F.bodies.get(tgt)
            if b is not None and len(c.dest) == 1:
                # async fn: its only child coroutine
                kids = [k for k in self.F.children.get(b.id, []) if k.kind == "coroutine"]
                if kids and b.ty(0).startswith("impl core::future::future::Future"):
                    fut_locals[c.dest[0]] = kids
        if fut_locals:
            for c in body.calls:
                if self.F.bodies.get(c.t.get("r") or c.f) is not None:
                    continue
                if c.f in ("core::future::into_future::IntoFuture::into_future",) or c.f.startswith("core::pin::Pin"):
                    continue
                for a in c.args:
                    p = op_place(a)
                    if p is not None and len(p) == 1 and p[0] in fut_locals:
                        kind = "spawn" if SPAWNERS.search(c.f) else "closure_sync"
                        for k in fut_locals[p[0]]:
                            out.append((c, k, kind))
        self._callees[body.id] = out
        return out

    @property
    def callers(self):
        if self._callers is None:
            cs = defaultdict(list)
            for b in self.F.bodies.values():
                for c, cb, kind in self.callees(b):
                    cs[cb.id].append((b, c, kind))
            self._callers = cs
        return self._callers

    def reachable_bodies(self, roots, kinds=("call", "poll", "closure_sync", "spawn"), include_children=True):
        """bodies reachable in the call graph from roots (list of Body)"""
        seen = {}
        stack = list(roots)
        root_ids = {r.id for r in roots}
        for r in roots:
            seen[r.id] = r
        while stack:
            b = stack.pop()
            nxt = []
            for _c, cb, k in self.callees(b):
                if k not in kinds:
                    continue
                if k == "call" and cb.kind == "fn" and cb.ty(0).startswith("impl core::future::future::Future"):
                    # calling an async fn only builds its future; its body is reached through the poll /
                    # combinator edge. The fn item itself (argument evaluation) is still visited.
                    nxt.append(cb)
                    continue
                nxt.append(cb)
            if include_children and b.id in root_ids:
                # a root given as `async fn`: its body is the coroutine child
                nxt += [k for k in self.F.children.get(b.id, []) if k.kind == "coroutine" and b.kind == "fn"
                        and b.ty(0).startswith("impl core::future::future::Future")]
            for cb in nxt:
                if cb.id not in seen:
                    seen[cb.id] = cb
                    stack.append(cb)
        return list(seen.values())

    # ------------------------------------------------------------- held resources
    def guard_locals(self, body):
        out = {}
        for i, ty in enumerate(body.locals):
            if i == 0:
                continue
            g = find_guards(ty)
            if g:
                out[i] = g
        return out

    def env_guards(self, body):
        """guards captured by value into this closure/coroutine: {field_idx: [(class,mode)]}"""
        if not body.parent or body.parent not in self.F.bodies:
            return {}
        parent = self.F.bodies[body.parent]
        out = {}
        for bb, bl in enumerate(parent.blocks):
            for s in bl["s"]:
                if s[0] == "A" and s[2][0] == "agg" and isinstance(s[2][1], dict):
                    k = s[2][1]
                    cid = k.get("closure") or k.get("coroutine") or k.get("coroutine_closure")
                    if cid != body.id:
                        continue
                    for i, op in enumerate(s[2][2]):
                        p = op_place(op)
                        if p is None:
                            continue
                        if len(p) == 1:
                            ty = parent.ty(p[0])
                        else:
                            # upvar of the parent forwarded (nested closure): look at parent's env
                            ty = None
                            if p[0] == 1:
                                pe = self.env_guards(parent)
                                for x in p[1:]:
                                    if isinstance(x, list) and x[0] == "f" and x[1] in pe and op[0] == "m":
                                        out[i] = pe[x[1]]
                            continue
                        if op[0] != "m":
                            continue
                        g = find_guards(ty)
                        if g:
                            out[i] = g
        return out

    def held(self, body):
        """forward may-dataflow. returns dict bb -> frozenset of held items at block entry, and a function
        to get the set right before the terminator. items: ('L', local) | ('U', upvar field idx)"""
        r = self._held.get(body.id)
        if r is not None:
            return r
        gl = self.guard_locals(body)
        eg = self.env_guards(body)
        entry = frozenset(("U", i) for i in eg)
        n = body.n
        IN = [None] * n
        IN[0] = entry

        def transfer(bb, state, upto_term=True):
            st = set(state)
            for s in body.blocks[bb]["s"]:
                if s[0] == "A":
                    # moves out of guard locals
                    for op in rvalue_operands(s[2]):
                        if op[0] == "m":
                            self._kill_move(op[1], st, gl, eg)
                    if len(s[1]) == 1 and s[1][0] in gl:
                        st.add(("L", s[1][0]))
                elif s[0] == "SD":
                    st.discard(("L", s[1]))
            return st

        def after_term(bb, st):
            t = body.term(bb)
            st = set(st)
            if t["t"] == "call":
                for a in t["args"]:
                    if a[0] == "m":
                        self._kill_move(a[1], st, gl, eg)
                d = t["dest"]
                if len(d) == 1 and d[0] in gl:
                    st.add(("L", d[0]))
            elif t["t"] == "drop":
                p = t["p"]
                if len(p) == 1:
                    st.discard(("L", p[0]))
                elif p[0] == 1:
                    for x in p[1:]:
                        if isinstance(x, list) and x[0] == "f":
                            st.discard(("U", x[1]))
                            break
            elif t["t"] == "yield":
                pass
            return frozenset(st)

        work = [0]
        BEFORE_TERM = {}
        while work:
            bb = work.pop()
            st = transfer(bb, IN[bb])
            BEFORE_TERM[bb] = frozenset(st)
            outst = after_term(bb, st)
            for s in body.succ[bb]:
                if IN[s] is None:
                    IN[s] = outst
                    work.append(s)
                else:
                    u = IN[s] | outst
                    if u != IN[s]:
                        IN[s] = u
                        work.append(s)
        res = (IN, BEFORE_TERM, gl, eg)
        self._held[body.id] = res
        return res

    @staticmethod
    def _kill_move(place, st, gl, eg):
        l = place[0]
        if l in gl:
            st.discard(("L", l))
        if l == 1 and eg:
            for x in place[1:]:
                if isinstance(x, list) and x[0] == "f":
                    st.discard(("U", x[1]))
                    break

    def held_classes_at(self, body, bb):
        """set of (class, mode, item) held right before the terminator of bb"""
        IN, BT, gl, eg = self.held(body)
        st = BT.get(bb)
        if st is None:
            return set()
        out = set()
        for item in st:
            gs = gl.get(item[1]) if item[0] == "L" else eg.get(item[1])
            for g in gs or []:
                out.add((g[0], g[1], item))
        return out

    # ------------------------------------------------------------- acquisition events
    def direct_events(self, body):
        """[(class, mode, bb, Call)] : calls in this body whose result newly contains a guard"""
        r = self._events.get(body.id)
        if r is not None:
            return r
        out = []
        for c in body.calls:
            dty = c.t.get("dty", "")
            gs = find_guards(dty)
            if not gs:
                continue
            if c.f != "core::future::future::Future::poll" and transparent_args(c) is not None:
                continue  # value-forwarding helper (Try::branch, from_residual, unwrap, ...): not an acquisition
            # moves: some argument already owns such a guard
            arg_gs = set()
            for a in c.args:
                p = op_place(a)
                if p is None:
                    continue
                aty = body.ty(p[0]) if len(p) == 1 else None
                if aty is None:
                    # projection: approximate with the base local's type
                    aty = body.ty(p[0])
                    if p[0] == 1 and body.kind != "fn":
                        eg = self.env_guards(body)
                        for x in p[1:]:
                            if isinstance(x, list) and x[0] == "f" and x[1] in eg:
                                for g in eg[x[1]]:
                                    arg_gs.add(g[0])
                if a[0] == "m" or True:
                    for g in find_guards(aty):
                        arg_gs.add(g[0])
            for g in gs:
                if g[0] in arg_gs:
                    continue
                out.append((g[0], g[1], c.bb, c))
        self._events[body.id] = out
        return out

    @property
    def may_acquire(self):
        """body id -> set of classes acquired by the body or anything it (synchronously / by await) runs"""
        if self._may_acquire is None:
            ma = {bid: set(e[0] for e in self.direct_events(b)) for bid, b in self.F.bodies.items()}
            changed = True
            edges = {bid: [cb.id for _, cb, k in self.callees(b) if k != "spawn"] for bid, b in self.F.bodies.items()}
            # NB: calling an `async fn` only creates its future; the body runs where it is polled
            # (poll edge -> coroutine body) or where the future is handed to a combinator (closure_sync edge).
            while changed:
                changed = False
                for bid, outs in edges.items():
                    s = ma[bid]
                    n0 = len(s)
                    for o in outs:
                        s |= ma[o]
                    if len(s) != n0:
                        changed = True
            self._may_acquire = ma
        return self._may_acquire

    def lock_edges(self, bodies=None):
        """list of dict(x, xmode, y, ymode, body, bb, call, via, item): Y acquired while X held"""
        out = []
        bodies = bodies if bodies is not None else list(self.F.bodies.values())
        ma = self.may_acquire
        for b in bodies:
            IN, BT, gl, eg = self.held(b)
            if not gl and not eg:
                continue
            direct = defaultdict(list)
            for cls, mode, bb, c in self.direct_events(b):
                direct[bb].append((cls, mode, c))
            via = defaultdict(list)
            for c, cb, kind in self.callees(b):
                if kind == "spawn":
                    continue
                for cls in ma.get(cb.id, ()):
                    via[c.bb].append((cls, "?", c, cb.id))
                if kind == "call" and cb.kind == "fn" and cb.ty(0).startswith("impl core::future::future::Future"):
                    pass
            for bb in set(direct) | set(via):
                held = self.held_classes_at(b, bb)
                if not held:
                    continue
                t = b.term(bb)
                dest_local = t["dest"][0] if t["t"] == "call" else None
                for (xc, xm, item) in held:
                    if item == ("L", dest_local):
                        continue
                    for cls, mode, c in direct.get(bb, []):
                        out.append(dict(x=xc, xmode=xm, y=cls, ymode=mode, body=b, bb=bb, call=c, via=None, item=item))
                    for cls, mode, c, cbid in via.get(bb, []):
                        out.append(dict(x=xc, xmode=xm, y=cls, ymode=mode, body=b, bb=bb, call=c, via=cbid, item=item))
        return out

    # ------------------------------------------------------------- execution context
    @property
    def contexts(self):
        """body id -> set of {'async','blocking'}: in which kind of context the body may run.
        async  = on a runtime worker inside a future's poll (must not block the thread)
        blocking = inside block_in_place / spawn_blocking / a plain thread / sync main."""
        if self._ctx is not None:
            return self._ctx
        ctx = defaultdict(set)
        work = []

        def add(bid, c):
            if c not in ctx[bid]:
                ctx[bid].add(c)
                work.append((bid, c))

        for bid, b in self.F.bodies.items():
            if b.kind == "coroutine":
                add(bid, "async")
        # roots: sync fns never called from the workspace get 'blocking' (main, thread entry points)
        called = set()
        for bid, b in self.F.bodies.items():
            for c, cb, kind in self.callees(b):
                called.add(cb.id)
        for bid, b in self.F.bodies.items():
            if b.kind == "fn" and bid not in called:
                add(bid, "blocking")
        while work:
            bid, c = work.pop()
            b = self.F.bodies[bid]
            for call, cb, kind in self.callees(b):
                if cb.kind == "coroutine":
                    continue  # always async
                if kind == "call":
                    add(cb.id, c)
                elif kind in ("closure_sync", "spawn"):
                    if BLOCKING_RUNNERS.search(call.f):
                        add(cb.id, "blocking")
                    elif SPAWNERS.search(call.f):
                        add(cb.id, "async")
                    else:
                        add(cb.id, c)
        self._ctx = ctx
        return ctx
