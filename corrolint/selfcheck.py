"""Engine-level positive controls, run by every check: each analysis primitive must still separate the bad_* from the
good_* twin in /verif/fixtures. A primitive that goes blind makes the check CHECK-BROKEN instead of silently green."""
from . import flow
from .facts import op_place, op_const, op_local


def run(F, G):
    """returns (n_controls, [failures])"""
    fails = []
    n = 0

    def body(name):
        bs = [b for b in F.bodies.values() if b.id.endswith("::" + name)]
        return bs[0] if bs else None

    # 1. dominance / Ok-edge: publish after commit
    for name, want in (("bad_publish_before_commit", False), ("good_publish_after_commit", True)):
        b = body(name)
        n += 1
        if b is None:
            fails.append("fixture %s missing" % name)
            continue
        pub = [c for c in b.calls if c.name() == "publish"]
        com = [c for c in b.calls if c.name() == "commit"]
        if not pub or not com:
            fails.append("%s: calls not found" % name)
            continue
        oks = flow.ok_edge_of(b, com[0])
        got = bool(oks) and b.edges_dominate(oks, pub[0].bb)
        if got != want:
            fails.append("dominance control %s: publish-after-commit = %s, expected %s" % (name, got, want))

    # 2. finite orderings on an integer comparison
    for name, want in (("bad_newest_wins", {"<": {False}, "=": {True}, ">": {True}}), ("good_newest_wins", {"<": {False}, "=": {False}, ">": {True}})):
        b = body(name)
        n += 1
        if b is None:
            fails.append("fixture %s missing" % name)
            continue
        st = None
        for bb in b.live_blocks():
            for i, s in enumerate(b.blocks[bb]["s"]):
                if s[0] == "A" and s[2][0] == "bin" and s[2][1] in ("Gt", "Ge", "Lt", "Le"):
                    st = (bb, i, s[2][1], op_local(s[2][2]))
        if st is None:
            fails.append("%s: comparison not found" % name)
            continue
        bb, i, op, lhs = st
        a_first = any(o.kind == "arg" and o.local == 2 for o in flow.origins(b, [lhs], at=(bb, i)))  # role A = `incoming` (argument 2)
        res = {}
        for o in ("<", "=", ">"):
            v = flow.compare_value({"Gt": "gt", "Ge": "ge", "Lt": "lt", "Le": "le"}[op], o, a_first)
            _, rets = flow.eval_guard(b, {}, stmt_vals={(bb, i): v}, extra_tracked={0})
            res[o] = rets
        if res != want:
            fails.append("ordering control %s: %s, expected %s" % (name, res, want))

    # 3. held-resource dataflow: guard across await
    for name, want in (("bad_guard_across_await", True), ("good_guard_dropped_before_await", False)):
        bs = [b for b in F.bodies.values() if ("::" + name + "::") in b.id and b.kind == "coroutine"]
        n += 1
        if not bs:
            fails.append("fixture %s missing" % name)
            continue
        b = bs[0]
        got = False
        for bb in b.live_blocks():
            if b.term(bb)["t"] == "yield" and any(h[0].startswith("std:") for h in G.held_classes_at(b, bb)):
                got = True
        if got != want:
            fails.append("held-resource control %s: guard live at yield = %s, expected %s" % (name, got, want))

    # 4. origin slices: eviction key provenance
    for name, want in (("bad_evict", False), ("good_evict", True)):
        b = body(name)
        n += 1
        if b is None:
            fails.append("fixture %s missing" % name)
            continue
        pops = [c for c in b.calls if c.name() == "pop"]
        ok_all = None
        for bb, bl in enumerate(b.blocks):
            for si, s in enumerate(bl["s"]):
                if s[0] == "A" and s[2][0] == "agg" and isinstance(s[2][1], dict) and s[2][1].get("closure"):
                    for op in s[2][2]:
                        pl = op_place(op)
                        if pl is None:
                            continue
                        org = flow.origins(b, pl, at=(bb, si))
                        good = bool(org) and all(o.kind == "call" and pops and o.call.bb == pops[0].bb for o in org)
                        ok_all = good if ok_all is None else (ok_all and good)
        if ok_all is None or ok_all != want:
            fails.append("provenance control %s: key-from-popped = %s, expected %s" % (name, ok_all, want))

    # 5. call inventory: panic site in a decoder
    b = body("bad_decode_panics")
    n += 1
    if b is None or not any("panic" in c.f for c in b.calls):
        fails.append("effect control bad_decode_panics: panic call not seen")
    b = body("good_decode")
    n += 1
    if b is None or any("panic" in c.f for c in b.calls):
        fails.append("effect control good_decode: spurious panic call")
    # 6. variant-sensitive must-pass: the None arm of `ours` must reach push
    for name, want in (("good_tail_pushed", True), ("bad_tail_dropped", False)):
        b = body(name)
        n += 1
        if b is None:
            fails.append("fixture %s missing" % name)
            continue
        pushes = [c for c in b.calls if c.name() == "push"]
        ve = flow.variant_edges(b, [2])
        rets = b.return_blocks()
        if not pushes or not ve or not rets:
            fails.append("%s: push / match on `ours` / return not found" % name)
            continue
        sw, m, other = ve[0]
        none_t = m.get(0, other)
        plain = any(r in b.reachable(none_t, no_nodes=(pushes[0].bb,)) for r in rets)
        sens = any(r in flow.variant_reach(b, none_t, no_nodes=(pushes[0].bb,)) for r in rets)
        if not plain:
            fails.append("variant control %s: path-insensitive reachability unexpectedly precise (fixture no longer exercises the infeasible path)" % name)
        if (not sens) != want:
            fails.append("variant control %s: None-arm-must-push = %s, expected %s" % (name, not sens, want))

    # 7. loop left only at exhaustion
    for name, want in (("good_drain", True), ("bad_drain_stops_early", False)):
        b = body(name)
        n += 1
        if b is None:
            fails.append("fixture %s missing" % name)
            continue
        nx = [c for c in b.calls if c.name() == "next"]
        after = [c for c in b.calls if c.name() == "push" and "Vec" not in c.f]
        if not nx or not after:
            fails.append("%s: next()/push not found" % name)
            continue
        ve = flow.variant_edges(b, nx[0].dest)
        if not ve:
            fails.append("%s: match on next() not found" % name)
            continue
        sw, m, other = ve[0]
        got = after[0].bb not in b.reachable(nx[0].bb, no_edges=[(sw, m.get(0, other))])
        if got != want:
            fails.append("exhaustion control %s: leaves-only-at-None = %s, expected %s" % (name, got, want))
    # 8. named &str constants resolve to their text (SQL moved into a `const` must stay readable)
    n += 1
    got = {k.rsplit("::", 1)[-1]: v.get("s") for k, v in F.consts.items() if k.endswith("_SQL")}
    if got.get("MODULE_SQL") != "SELECT 1 FROM module_level" or got.get("LOCAL_SQL") != "SELECT 2 FROM fn_level":
        fails.append("named-const control: &str constants not resolved (%s)" % got)
    # 9. named integer-array constants resolve to their elements
    n += 1
    arr = [v.get("arr") for k, v in F.consts.items() if k.endswith("::LOCK_BYTES")]
    if arr != [[120, 121, -2]]:
        fails.append("array-const control: LOCK_BYTES not resolved (%s)" % arr)
    return n, fails
