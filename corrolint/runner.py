"""Check runner: extraction, rule execution, evidence, known findings, exit codes.

exit 0  all obligations discharged (known findings printed as KNOWN-FINDING)
exit 1  at least one unlisted violation (VIOLATION property=<id> replay=<path>)
exit 2  CHECK-BROKEN (tree does not build / extractor broken / positive control silent)
"""
import hashlib
import importlib
import json
import os
import sys
import time
import traceback

from . import extract as ex
from . import facts as fx
from . import graph as gx

VERIF = ex.VERIF
EVIDENCE_DIR = os.path.join(VERIF, "evidence")
KNOWN_FINDINGS = os.path.join(VERIF, "known_findings.json")


class Rule:
    def __init__(self, ctx, rid, kind, desc):
        self.ctx, self.id, self.kind, self.desc = ctx, rid, kind, desc
        self.obligations = []  # dicts

    def _rec(self, ok, instance, where, msg, nontrivial=True, extra=None):
        o = {"rule": self.id, "kind": self.kind, "instance": instance, "where": where, "ok": bool(ok),
             "msg": msg, "nontrivial": bool(nontrivial)}
        if extra:
            o.update(extra)
        self.obligations.append(o)
        return ok

    def ok(self, instance, where="", msg="", nontrivial=True, **extra):
        return self._rec(True, instance, where, msg, nontrivial, extra)

    def fail(self, instance, where="", msg="", **extra):
        return self._rec(False, instance, where, msg, True, extra)

    def require(self, cond, instance, where="", msg="", fail_msg=None, nontrivial=True, **extra):
        if cond:
            return self._rec(True, instance, where, msg, nontrivial, extra)
        return self._rec(False, instance, where, fail_msg or ("NOT " + msg), True, extra)

    def anchor(self, obj, instance, what):
        """an anchor that must exist for the rule to be evaluable; missing => undischargeable => violation"""
        if obj is None or obj == [] or obj is False:
            self._rec(False, instance + ".anchor", "", "anchor not found: " + what, True, None)
            return False
        return True

    def floor(self, n, floor, instance, what):
        if n < floor:
            self._rec(False, instance + ".floor", "", "%s: found %d < floor %d (inventory shrank: rule would pass vacuously)" % (what, n, floor), True, None)
            return False
        return True


class Ctx:
    def __init__(self, prop, F, G, tier, seed, digest, fresh):
        self.prop, self.F, self.G, self.tier, self.seed = prop, F, G, tier, seed
        self.digest, self.fresh = digest, fresh
        self.rules = []
        self.trusted_base = []
        self.assumptions = []
        self.notes = []

    def rule(self, rid, kind, desc):
        r = Rule(self, rid, kind, desc)
        self.rules.append(r)
        return r

    def trust(self, *items):
        for i in items:
            if i not in self.trusted_base:
                self.trusted_base.append(i)

    def assume(self, *items):
        for i in items:
            if i not in self.assumptions:
                self.assumptions.append(i)


def load_known():
    if not os.path.exists(KNOWN_FINDINGS):
        return []
    with open(KNOWN_FINDINGS) as fh:
        return json.load(fh).get("findings", [])


def vkey(prop, o):
    return "%s/%s/%s" % (prop, o["rule"], o["instance"])


def evaluate(prop, F, tier="quick", seed=0, digest="", fresh=False, G=None):
    """Run the property's rule table on the plain fact base; rules that report violations are re-evaluated on the inlined
    view (corrolint/inline.py: private helper fns inlined into their callers).  Both views describe the same program and a
    rule is sound on either, so a rule counts as violated only if it is violated on both; the obligations reported for it
    are then those of the inlined view (the ones that survive helper extraction).  Returns the Ctx holding the merged rules."""
    mod = importlib.import_module("rules." + prop)
    G = G or gx.Graph(F)
    ctx = Ctx(prop, F, G, tier, seed, digest, fresh)
    mod.run(ctx)
    failing = [r for r in ctx.rules if any(not o["ok"] for o in r.obligations)]
    if not failing:
        return ctx
    from . import inline
    V = inline.inlined_view(F)
    if not V.inlined["helpers"]:
        return ctx
    VG = getattr(V, "_graph", None)
    if VG is None:
        VG = gx.Graph(V)
        V._graph = VG
    vctx = Ctx(prop, V, VG, tier, seed, digest, fresh)
    try:
        mod.run(vctx)
    except Exception:
        ctx.notes.append({"inlined_view": "rule engine crashed on the inlined view; plain-view verdict kept", "trace": traceback.format_exc()[-600:]})
        return ctx
    by_id = {}
    for r in vctx.rules:
        by_id.setdefault(r.id, r)
    cleared, confirmed = [], []
    for r in failing:
        r2 = by_id.get(r.id)
        if r2 is None or not r2.obligations:
            continue
        plain_fail = [o["instance"] for o in r.obligations if not o["ok"]]
        for o in r2.obligations:
            o["view"] = "inlined"
        if any(not o["ok"] for o in r2.obligations):
            confirmed.append(r.id)
        else:
            cleared.append({"rule": r.id, "plain_view_artefacts": plain_fail[:6]})
        r.obligations = r2.obligations
    ctx.notes.append({"inlined_view": {"helpers_inlined": len(V.inlined["helpers"]), "absorbed": V.inlined["absorbed"][:20],
                                       "rules_cleared_on_inlined_view": cleared, "rules_violated_on_both_views": confirmed}})
    return ctx


def run_property(prop, tier="quick", seed=0, no_cache=False, repo=None, facts_dir=None, write_evidence=True,
                 out=sys.stdout):
    t0 = time.time()
    try:
        if facts_dir is None:
            facts_dir, digest, fresh, ext_s = ex.extract(repo or ex.REPO, no_cache=no_cache)
        else:
            digest, fresh, ext_s = os.path.basename(facts_dir), False, 0.0
        F = fx.load(facts_dir)
    except ex.Broken as e:
        print("CHECK-BROKEN: %s" % e, file=out)
        return 2
    try:
        mod = importlib.import_module("rules." + prop)
        ctx = evaluate(prop, F, tier, seed, digest, fresh)
        # engine-level positive controls (every property): each analysis primitive must separate bad_* from good_* fixtures
        cfacts = controls_facts()
        if cfacts is None:
            print("CHECK-BROKEN: positive-control fixture facts unavailable", file=out)
            return 2
        from . import selfcheck
        n_ctl, ctl_fails = selfcheck.run(*cfacts)
        ctx.notes.append({"engine_controls": n_ctl, "engine_control_failures": ctl_fails})
        if ctl_fails:
            print("CHECK-BROKEN: engine positive control(s) failed: %s" % "; ".join(ctl_fails), file=out)
            return 2
        # rule-level positive controls: the same rule code must fire on the fixture crate
        if hasattr(mod, "controls"):
            CF, CG = cfacts
            cctx = Ctx(prop + ".controls", CF, CG, tier, seed, "fixtures", False)
            silent = mod.controls(cctx)
            ctx.notes.append({"positive_controls": [
                {"rule": o["rule"], "instance": o["instance"], "fired": not o["ok"]} for r in cctx.rules for o in r.obligations if not o["ok"]][:20]})
            if silent:
                print("CHECK-BROKEN: positive control(s) did not fire: %s" % ", ".join(silent), file=out)
                return 2
    except ex.Broken as e:
        print("CHECK-BROKEN: %s" % e, file=out)
        return 2
    except Exception:
        print("CHECK-BROKEN: rule engine crashed for %s:\n%s" % (prop, traceback.format_exc()), file=out)
        return 2

    known = {k["key"]: k for k in load_known() if k.get("property") == prop and k.get("status") == "known"}
    F, G = ctx.F, ctx.G
    obligations = [o for r in ctx.rules for o in r.obligations]
    violations, known_hits = [], []
    for o in obligations:
        if o["ok"]:
            continue
        k = vkey(prop, o)
        if k in known:
            known_hits.append((k, o))
        else:
            violations.append((k, o))
    for k, o in known_hits:
        print("KNOWN-FINDING: property=%s %s — %s [%s]" % (prop, known[k].get("what", ""), o["msg"], k), file=out)
    vdir = os.path.join(EVIDENCE_DIR, "violations")
    seen_keys = set()
    for k, o in violations:
        if k in seen_keys:
            continue
        seen_keys.add(k)
        os.makedirs(vdir, exist_ok=True)
        path = os.path.join(vdir, "%s-%s.json" % (prop, hashlib.sha1(k.encode()).hexdigest()[:12]))
        with open(path, "w") as fh:
            json.dump({"property": prop, "key": k, "rule": o["rule"], "kind": o["kind"], "instance": o["instance"],
                       "where": o["where"], "message": o["msg"], "facts_digest": digest,
                       "explain_cmd": "./check %s --explain %s" % (prop, path)}, fh, indent=1)
        print("VIOLATION property=%s replay=%s" % (prop, path), file=out)
        print("  rule=%s instance=%s at %s: %s" % (o["rule"], o["instance"], o["where"], o["msg"]), file=out)
    selftest = None
    if tier == "thorough":
        selftest = mutant_selftest(prop, out)
        missed = [r["seed"] for r in selftest if r["status"] == "MISSED"]
        if missed:
            print("SELFTEST-WEAK: property=%s seeded change(s) not detected by the current rules: %s (recorded in evidence; not a violation of the tree)" % (prop, ", ".join(missed)), file=out)
    wall = time.time() - t0
    n_obl = len(obligations)
    n_ok = sum(1 for o in obligations if o["ok"])
    distinct_nt = len({(o["rule"], o["instance"]) for o in obligations if o["nontrivial"]})
    if write_evidence:
        os.makedirs(EVIDENCE_DIR, exist_ok=True)
        samples = []
        per_rule = {}
        for o in obligations:
            per_rule.setdefault(o["rule"], []).append(o)
        for rid, os_ in per_rule.items():
            for o in os_[:3]:
                samples.append({"rule": o["rule"], "kind": o["kind"], "instance": o["instance"], "where": o["where"],
                                "verdict": "discharged" if o["ok"] else "violated", "what": o["msg"]})
        ev = {
            "property_id": prop,
            "tier": tier,
            "seed": seed,
            "level": "other",
            "coverage": {
                "explanation": "static analysis of the type-checked MIR (mir_promoted) of every workspace body of /repo's "
                               "current tree; each obligation is one rule instance (rule kinds K1-K9, DESIGN.md §2.4) "
                               "decided by CFG dominance / dataflow / call-graph queries; nothing is executed",
                "obligations": n_obl,
                "discharged": n_ok,
                "evaluations": n_obl,
                "distinct_nontrivial": distinct_nt,
                "rule": "one evaluation per rule instance (site × obligation); non-trivial = the instance's site set was "
                        "non-empty and the verdict needed a CFG/dataflow/call-graph query (anchor-existence and floor "
                        "bookkeeping are not counted)",
                "samples": samples[:60],
                "rules": [{"id": r.id, "kind": r.kind, "desc": r.desc, "instances": len(r.obligations),
                           "violated": sum(1 for o in r.obligations if not o["ok"])} for r in ctx.rules],
                "bodies_analysed": len(F.bodies),
                "calls_analysed": sum(m.get("n_calls", 0) for m in F.meta.values()),
                "yields_analysed": sum(m.get("n_yields", 0) for m in F.meta.values()),
                "crates": sorted(F.meta.keys()),
                "facts_digest": digest,
                "fresh_extraction": fresh,
                "checker_cmd": "./check %s --tier %s" % (prop, tier),
                "trusted_base": ctx.trusted_base,
                "known_findings_hit": [k for k, _ in known_hits],
                "notes": ctx.notes,
                "mutant_selftest": selftest,
                "exhaustive": True,
            },
            "assumptions": ctx.assumptions,
            "wall_s": round(wall, 2),
            "violations": len(seen_keys),
        }
        tmp = os.path.join(EVIDENCE_DIR, "%s.json.tmp%d" % (prop, os.getpid()))
        with open(tmp, "w") as fh:
            json.dump(ev, fh, indent=1)
        os.rename(tmp, os.path.join(EVIDENCE_DIR, "%s.json" % prop))
    print("%s: %d obligations, %d discharged, %d violation(s), %d known finding(s); %d bodies; facts %s (%s); %.1fs"
          % (prop, n_obl, n_ok, len(seen_keys), len(known_hits), len(F.bodies), digest,
             "fresh" if fresh else "memoised", wall), file=out)
    return 1 if violations else 0


_CONTROLS = None


def controls_facts():
    """facts of the positive-control fixture crate (/verif/fixtures), extracted with the same driver"""
    global _CONTROLS
    if _CONTROLS is not None:
        return _CONTROLS
    try:
        d = ex.extract_fixtures()
    except ex.Broken as e:
        print("CHECK-BROKEN: fixtures: %s" % e)
        return None
    F = fx.load(d)
    _CONTROLS = (F, gx.Graph(F))
    return _CONTROLS


def mutant_selftest(prop, out=sys.stdout):
    """thorough tier: every seeded change of this property (seeded/<prop>-*/patch.diff) and every own mutant aimed at it
    (mutants/*.diff) is applied to a scratch copy of the
    current tree, facts are re-extracted from that copy and the same rules must report a violation. Static: the mutated
    source is analysed, never executed. A patch that no longer applies is `stale`."""
    import glob as _glob
    import subprocess as _sp
    results = []
    seeds = [(os.path.basename(os.path.dirname(p_)), p_) for p_ in sorted(_glob.glob(os.path.join(VERIF, "seeded", prop + "-*", "patch.diff")))]
    # plus the hand-written single-site mutants aimed at this property (mutants/INDEX.json)
    try:
        idx = json.load(open(os.path.join(VERIF, "mutants", "INDEX.json")))
    except (OSError, ValueError):
        idx = {}
    for mname in sorted(idx):
        mp = os.path.join(VERIF, "mutants", mname + ".diff")
        if idx[mname].get("property") == prop and os.path.exists(mp):
            seeds.append(("own:" + mname, mp))
    for name, patch in seeds:
        try:
            scratch = ex.scratch_copy()
            r = _sp.run(["git", "apply", "--unsafe-paths", "--directory", scratch, patch], capture_output=True, text=True, cwd="/")
            if r.returncode != 0:
                r = _sp.run(["patch", "-p1", "-s", "-d", scratch, "-i", patch], capture_output=True, text=True)
            if r.returncode != 0:
                results.append({"seed": name, "status": "stale", "detail": (r.stderr or r.stdout)[-200:]})
                continue
            facts_dir, digest, fresh, ext_s = ex.extract(scratch)
            F = fx.load(facts_dir)
            ctx = evaluate(prop, F, "thorough", 0, digest, fresh)
            viol = [o for r_ in ctx.rules for o in r_.obligations if not o["ok"]]
            results.append({"seed": name, "status": "detected" if viol else "MISSED", "violations": [vkey(prop, o) for o in viol][:5]})
        except ex.Broken as e:
            results.append({"seed": name, "status": "broken", "detail": str(e)[-300:]})
        finally:
            ex.remove_scratch()
    for r in results:
        print("mutant %s: %s %s" % (r["seed"], r["status"], "; ".join(r.get("violations", [])[:2])), file=out)
    return results


def main(argv):
    import argparse
    ap = argparse.ArgumentParser(prog="check")
    ap.add_argument("property")
    ap.add_argument("--tier", default=os.environ.get("VERIF_TIER", "quick"), choices=["quick", "thorough"])
    ap.add_argument("--no-cache", action="store_true")
    ap.add_argument("--explain")
    ap.add_argument("--repo")
    args = ap.parse_args(argv)
    seed = int(os.environ.get("VERIF_SEED", "0") or 0)
    sys.path.insert(0, VERIF)
    if args.explain:
        return explain(args.property, args.explain, repo=args.repo)
    rc = run_property(args.property, tier=args.tier, seed=seed, no_cache=args.no_cache, repo=args.repo)
    return rc


def explain(prop, replay_path, repo=None, out=sys.stdout):
    """re-evaluate the property on the current tree and report whether the violation in the replay file still fires"""
    try:
        with open(replay_path) as fh:
            rp = json.load(fh)
    except Exception as e:
        print("cannot read replay file %s: %s" % (replay_path, e), file=out)
        return 2
    try:
        facts_dir, digest, fresh, _ = ex.extract(repo or ex.REPO)
        F = fx.load(facts_dir)
    except ex.Broken as e:
        print("CHECK-BROKEN: %s" % e, file=out)
        return 2
    ctx = evaluate(prop, F, "quick", 0, digest, fresh)
    hits = [o for r in ctx.rules for o in r.obligations if vkey(prop, o) == rp.get("key")]
    print("replay key : %s" % rp.get("key"), file=out)
    print("recorded   : %s @ %s" % (rp.get("message"), rp.get("where")), file=out)
    if not hits:
        print("now        : this rule instance does not exist on the current tree (facts %s)" % digest, file=out)
        return 0
    for o in hits:
        print("now        : %s — %s @ %s" % ("VIOLATED" if not o["ok"] else "discharged", o["msg"], o["where"]), file=out)
    if any(not o["ok"] for o in hits):
        print("VIOLATION property=%s replay=%s" % (prop, replay_path), file=out)
        return 1
    return 0
