"""C02 — advertised sync state is an exact, durable summary of what a node holds (structural clauses).

Decides: publish-after-commit of bookkeeping memory; insert_db on the data transaction; closed inventories of the
writers of the bookkeeping tables and of the BookedVersions / VersionsSnapshot fields; paired DB / in-memory gap
updates in insert_db; reload reads what writers write; generate_sync reads one guard per actor; one base constant
for "the full sequence range of a version".  Does not decide the range arithmetic of compute_gaps_change.
"""
import re
from collections import defaultdict

from corrolint import flow
from corrolint.facts import op_place, op_const, op_local
from . import common as cm
from . import sqlinv, tx

BV = "klukai_types::agent::BookedVersions"
VS = "klukai_types::agent::VersionsSnapshot"
COMMIT_SNAPSHOT = BV + "::commit_snapshot"
INSERT_PARTIAL = BV + "::insert_partial"
INSERT_DB = VS + "::insert_db"
FROM_CONN = BV + "::from_conn"


def run(ctx):
    ctx.trust("SQLite atomic commit", "rusqlite Transaction: drop without commit() rolls back", "rangemap::RangeInclusiveSet semantics")
    ctx.assume("the range arithmetic of compute_gaps_change (split/merge, off-by-one) is a value property and is not decided",
               "all bookkeeping writers hold the single write connection, so snapshot -> commit -> commit_snapshot is not interleaved (C20)")
    tx2(ctx)
    tx3(ctx)
    fields(ctx)
    sqlw(ctx)
    pair(ctx)
    reload_(ctx)
    read1(ctx)
    seqbase(ctx)
    partialmax(ctx)
    gapsphase(ctx)
    publishes_all(ctx)
    contains(ctx)
    pcomplete(ctx)


def _callers(F, target):
    return F.callers_of(target)


# ------------------------------------------------------------------------------------------------ tx2
def tx2(ctx):
    F, G = ctx.F, ctx.G
    R = ctx.rule("C02.tx2", "K2", "commit_snapshot / insert_partial (publishing bookkeeping memory) happen only after the Ok edge of the commit that stored the rows")
    n = 0
    for target in (COMMIT_SNAPSHOT, INSERT_PARTIAL):
        for c in _callers(F, target):
            root = F.root_fn(c.body).id
            if root == FROM_CONN:
                continue  # reload path: rebuilds memory *from* the committed database
            n += 1
            ok, why = tx.publish_after_commit(F, G, c.body, c)
            R.require(ok, "%s@%s" % (target.rsplit("::", 1)[-1], root), c.where(), "%s in %s: %s" % (target.rsplit("::", 1)[-1], c.body.id, why),
                      fail_msg="%s in %s is not dominated by a successful commit (%s): memory would advertise versions whose rows may never be durable"
                               % (target.rsplit("::", 1)[-1], c.body.id, why))
    R.floor(n, 3, "publish-sites", "commit_snapshot/insert_partial call sites outside from_conn")


# ------------------------------------------------------------------------------------------------ tx3
def tx3(ctx):
    F, G = ctx.F, ctx.G
    R = ctx.rule("C02.tx3", "K7", "every VersionsSnapshot::insert_db runs on a transaction that is committed in the same body, before that commit")
    cs = _callers(F, INSERT_DB)
    if not R.floor(len(cs), 3, "insert_db-sites", "callers of VersionsSnapshot::insert_db"):
        return
    for c in cs:
        b = c.body
        root = F.root_fn(b).id
        roots = tx.tx_roots(F, b, c, 1, resolve_params=True)
        txs = {r for r in roots if r.startswith("tx:")}
        R.require(bool(txs) and txs == roots, "on-tx@%s" % root, c.where(), "insert_db(conn = %s)" % sorted(roots),
                  fail_msg="insert_db in %s runs on %s, not on a transaction begun in this unit of work" % (b.id, sorted(roots)))
        local_txs = {r for r in tx.tx_roots(F, b, c, 1) if r.startswith("tx:")}
        if not local_txs:
            continue  # runs on a caller's transaction (checked where it is begun: C06/C07)
        same = [k for k in tx.commits(b) if tx.tx_roots(F, b, k, 0) & local_txs]
        if not R.require(bool(same), "committed@%s" % root, c.where(), "the transaction given to insert_db is committed in the same body",
                         fail_msg="the transaction given to insert_db in %s is never committed in that body" % b.id):
            continue
        errs = flow.err_edge_of(b, c)
        bad = [k for k in same if any(b.can_reach(e[1], k.bb) for e in errs)]
        R.require(bool(errs) and not bad, "err-skips-commit@%s" % root, c.where(), "a failing insert_db returns without reaching the commit",
                  fail_msg="after insert_db fails in %s the commit is still reachable: data could be committed without its gap rows" % b.id)
        R.require(all(b.can_reach(c.bb, k.bb) and not b.can_reach(k.bb, c.bb) for k in same), "before-commit@%s" % root, c.where(),
                  "insert_db precedes the commit and is never run after it",
                  fail_msg="insert_db in %s can run after the commit of its transaction" % b.id)
    # the data writes of the same body use the same tx
    inv = sqlinv.inventory(F, [c.body for c in cs] + [d for c in cs for d in F.family(F.root_fn(c.body))])
    for c in cs:
        txs = {r for r in tx.tx_roots(F, c.body, c, 1) if r.startswith("tx:")}
        fam_ids = {d.id for d in F.family(F.root_fn(c.body))}
        for s in inv:
            if s.body.id in fam_ids and (s.writes or s.funcs) and s.body.id == c.body.id:
                R.require(s.recv <= txs, "same-tx:%s@%s" % ("+".join(sorted(s.writes | s.funcs)), F.root_fn(c.body).id), s.call.where(),
                          "data DML on %s shares insert_db's transaction" % sorted(s.writes | s.funcs),
                          fail_msg="DML on %s in %s runs on %s while insert_db runs on %s" % (sorted(s.writes | s.funcs), s.body.id, sorted(s.recv), sorted(txs)))


# ------------------------------------------------------------------------------------------------ fields
BV_FIELD_WRITERS = {
    # field -> allowed root functions
    "needed": {BV + "::new", BV + "::commit_snapshot"},
    "max": {BV + "::new", BV + "::commit_snapshot", BV + "::insert_partial", FROM_CONN},
    "partials": {BV + "::new", BV + "::commit_snapshot", BV + "::insert_partial"},
}
VS_FIELD_WRITERS = {
    "needed": {VS + "::insert_db", VS + "::insert_gaps", FROM_CONN, BV + "::snapshot", BV + "::commit_snapshot"},
    "partials": {VS + "::insert_db", BV + "::snapshot", BV + "::commit_snapshot", "<" + VS + " as core::ops::drop::Drop>::drop"},
    "max": {VS + "::insert_db", BV + "::snapshot", BV + "::commit_snapshot", "<" + VS + " as core::ops::drop::Drop>::drop"},
}


def fields(ctx):
    F = ctx.F
    R = ctx.rule("C02.fields", "K1", "the bookkeeping fields of BookedVersions / VersionsSnapshot are mutated only by their own methods")
    total = 0
    for adt, table in ((BV, BV_FIELD_WRITERS), (VS, VS_FIELD_WRITERS)):
        for field, allowed in table.items():
            sites = cm.field_mutation_sites(F, adt, field)
            byroot = defaultdict(list)
            for b, bb, how, line in sites:
                if b.impl_trait in ("core::clone::Clone", "core::fmt::Debug", "core::cmp::PartialEq"):
                    continue
                byroot[F.root_fn(b).id].append("%s:%d(%s)" % (b.file, line, how))
            total += len(byroot)
            for rid, where in sorted(byroot.items()):
                R.require(rid in allowed, "%s.%s@%s" % (adt.rsplit("::", 1)[-1], field, rid), where[0],
                          "%s.%s mutated in %s" % (adt.rsplit("::", 1)[-1], field, rid.rsplit("::", 1)[-1]),
                          fail_msg="%s.%s is mutated outside its owner methods: in %s at %s (bypasses snapshot/commit discipline)" % (adt.rsplit("::", 1)[-1], field, rid, where[:2]))
    R.floor(total, 6, "mutation-sites", "(type.field, function) mutation pairs")
    # whole-value replacement of a BookedVersions behind a guard: only from from_conn / new
    n = 0
    for b in F.bodies.values():
        for bb in b.live_blocks():
            for i, s in enumerate(b.blocks[bb]["s"]):
                if s[0] != "A" or len(s[1]) < 2 or s[1][-1] != "*":
                    continue
                if any(isinstance(p, list) for p in s[1][1:]):
                    continue
                lty = b.ty(s[1][0])
                if not re.search(r"^&mut klukai_types::agent::BookedVersions$", lty):
                    continue
                n += 1
                src = None
                if s[2][0] == "use":
                    src = op_place(s[2][1])
                org = flow.origins(b, src, at=(bb, i)) if src is not None else set()

                def _from_ctor(o, body_):
                    if o.kind != "call":
                        return False
                    if (o.call.t.get("r") or o.call.f) in (FROM_CONN, BV + "::new"):
                        return True
                    # value returned by a closure run synchronously (block_in_place(|| from_conn(..)))
                    passed, _c = ctx.G.closure_operands(body_)
                    for call, cid, ai in passed:
                        if call.bb == o.call.bb and F.get(cid) is not None:
                            cb = F.get(cid)
                            ro = flow.origins(cb, [0])
                            if ro and all(_from_ctor(x, cb) for x in ro):
                                return True
                    return False

                ok = bool(org) and all(_from_ctor(o, b) for o in org)
                R.require(ok, "replace@%s" % F.root_fn(b).id, "%s:%d" % (b.file, s[3]), "whole BookedVersions replaced with a value from from_conn/new",
                          fail_msg="a BookedVersions is overwritten wholesale in %s with a value from %s" % (b.id, cm.origin_summary(org)))
    ctx.notes.append({"whole_value_replacements": n})


# ------------------------------------------------------------------------------------------------ sqlw
TABLE_WRITERS = {
    "__corro_bookkeeping_gaps": {INSERT_DB, "corrosion::admin::collapse_gaps"},
    "__corro_seq_bookkeeping": {"klukai_agent::agent::util::process_incomplete_version", "klukai_agent::agent::util::clear_buffered_meta_loop"},
    "__corro_buffered_changes": {"klukai_agent::agent::util::process_incomplete_version", "klukai_agent::agent::util::clear_buffered_meta_loop"},
}


def sqlw(ctx):
    F = ctx.F
    R = ctx.rule("C02.sqlw", "K1", "DML on the bookkeeping tables occurs only in their registered writer functions")
    inv = sqlinv.inventory(F)
    seen = defaultdict(set)
    for s in inv:
        for t in s.writes:
            if t in TABLE_WRITERS:
                root = F.root_fn(s.body).id
                seen[t].add(root)
                R.require(root in TABLE_WRITERS[t], "%s@%s" % (t, root), s.call.where(), "%s on %s in %s" % (s.verb, t, root.rsplit("::", 1)[-1]),
                          fail_msg="%s on bookkeeping table %s in %s, which is not a registered writer (bookkeeping could change outside the snapshot discipline)" % (s.verb, t, s.body.id))
    for t, allowed in TABLE_WRITERS.items():
        R.require(len(seen[t]) >= 2, "%s.floor" % t, "", "%d writer functions of %s found" % (len(seen[t]), t),
                  fail_msg="writers of %s not found (%s): SQL inventory broken or table renamed" % (t, sorted(seen[t])))
    # dynamic SQL must not be able to name them: every dynamic site is listed
    dyn = [s for s in inv if s.dynamic and s.body.crate in ("klukai_agent", "klukai_types", "corrosion") and not s.body.id.startswith("klukai_types::sqlite_pool::")
           and not s.body.id.startswith("klukai_types::pubsub::") and not s.body.id.startswith("corrosion::tpl") and s.call.name() not in ("pragma_update", "pragma_query_value", "pragma_query", "pragma_update_and_check")]
    allowed_dyn = {"klukai_agent::api::public::execute_statement", "klukai_agent::api::public::build_query_rows_response", "klukai_agent::api::public::pubsub::expanded_statement",
                   "klukai_types::schema::apply_schema", "klukai_types::agent::crsqlite_v0_17_migration", "klukai_agent::api::public::api_v1_table_stats::count_table_lengths",
                   "corrosion::command::consul::sync::update_hashes", "klukai_agent::api::public::api_v1_table_stats"}
    for s in dyn:
        root = F.root_fn(s.body).id
        R.require(root in allowed_dyn or root.startswith("corrosion::"), "dynamic-sql@%s" % root, s.call.where(), "dynamic SQL site in %s is a registered one" % root,
                  fail_msg="new dynamic SQL site in %s: statement text is not a constant, table inventory cannot see what it writes" % s.body.id)


# ------------------------------------------------------------------------------------------------ pair
def pair(ctx):
    F = ctx.F
    R = ctx.rule("C02.pair", "K6", "insert_db updates the gap table and the in-memory needed set in pairs, in the same loop, on the success path")
    b = F.get(INSERT_DB)
    if not R.anchor(b, "insert_db", "fn " + INSERT_DB):
        return
    inv = [s for s in sqlinv.inventory(F, [b]) if "__corro_bookkeeping_gaps" in s.writes]
    dels = [s for s in inv if s.verb == "DELETE"]
    inss = [s for s in inv if s.verb == "INSERT"]
    mem_remove = [c for c in b.calls if re.search(r"RangeInclusiveSet::<T.*>::remove$", c.f)]
    mem_insert = [c for c in b.calls if re.search(r"RangeInclusiveSet::<T.*>::insert$", c.f)]
    part_remove = [c for c in b.calls if re.search(r"BTreeMap::<K, V.*>::remove", c.f)]

    def on_needed(c):
        org = cm.operand_origins(b, c, 0)
        return any(o.kind == "arg" and "needed" in o.field_names() for o in org)

    mem_remove = [c for c in mem_remove if on_needed(c)]
    mem_insert = [c for c in mem_insert if on_needed(c)]
    for name, dbs, mems in (("remove", dels, mem_remove), ("insert", inss, mem_insert)):
        if not (R.require(len(dbs) == 1, "db-%s" % name, b.where(), "one %s statement on the gap table" % name, fail_msg="expected one gap-table %s in insert_db, found %d" % (name, len(dbs)))
                and R.require(len(mems) == 1, "mem-%s" % name, b.where(), "one in-memory needed.%s" % name, fail_msg="expected one self.needed.%s in insert_db, found %d" % (name, len(mems)))):
            continue
        d, m = dbs[0].call, mems[0]
        # same loop: on a common cycle; and the DB statement's execution dominates the memory update
        R.require(b.in_loop_with(d.bb, m.bb), "same-loop-%s" % name, m.where(), "gap-table %s and needed.%s are in the same loop" % (name, name),
                  fail_msg="gap-table %s and self.needed.%s are not in the same loop body" % (name, name))
        execs = [c for c in b.calls if cm.STMT_STEP.search(c.f) and b.dominates(d.bb, c.bb) and b.dominates(c.bb, m.bb)]
        R.require(bool(execs), "db-before-mem-%s" % name, m.where(), "the statement is executed before the memory update",
                  fail_msg="self.needed.%s is not dominated by the execution of the gap-table statement" % name)
        # same range value: the named params and the memory argument root in the same loop variable
        morg = cm.operand_origins(b, m, 1)
        mcalls = {o.call.bb for o in morg if o.kind == "call"}
        porg = set()
        for e in execs:
            for a in e.args[1:]:
                p = op_place(a)
                if p is not None:
                    for o in flow.origins(b, p, at=(e.bb, "T")):
                        if o.kind == "call":
                            porg.add(o.call.bb)
        R.require(bool(mcalls & porg), "same-range-%s" % name, m.where(), "the SQL parameters and needed.%s use the same range value" % name,
                  fail_msg="the range given to self.needed.%s does not come from the same iteration value as the SQL parameters (DB and memory would diverge)" % name)
    # removed ranges also clear partials
    R.require(len(part_remove) >= 1 and mem_remove and b.in_loop_with(part_remove[0].bb, mem_remove[0].bb), "partials-cleared", b.where(),
              "versions of a removed gap are removed from partials in the same loop", fail_msg="removed gap ranges no longer clear self.partials")
    # the insert's error arm returns Err before the memory insert
    if inss and mem_insert:
        R.require(b.dominates(inss[0].call.bb, mem_insert[0].bb), "insert-err-skips-mem", mem_insert[0].where(), "needed.insert is reached only after the INSERT statement was prepared and run")
    # self.max assigned once, from changes.max, after both loops
    mx = [x for x in cm.field_mutation_sites(F, VS, "max", [b]) if x[2] == "assign"]
    R.require(len(mx) == 1, "max-once", b.where(), "self.max assigned exactly once in insert_db", fail_msg="self.max assigned %d times in insert_db" % len(mx))
    if len(mx) == 1 and mem_insert and mem_remove:
        bb = mx[0][1]
        R.require(not b.can_reach(bb, mem_insert[0].bb) and not b.can_reach(bb, mem_remove[0].bb), "max-after-loops", "%s:%d" % (b.file, mx[0][3]),
                  "self.max is updated after the gap loops (success path only)", fail_msg="self.max is updated before the gap updates complete")


# ------------------------------------------------------------------------------------------------ reload
def reload_(ctx):
    F = ctx.F
    R = ctx.rule("C02.reload", "K6", "BookedVersions::from_conn reads exactly the durable stores the writers write, and rebuilds through the live code paths")
    b = F.get(FROM_CONN)
    if not R.anchor(b, "from_conn", "fn " + FROM_CONN):
        return
    reads = set()
    for s in sqlinv.inventory(F, [b]):
        reads |= s.reads
    want = {"crsql_db_versions", "__corro_seq_bookkeeping", "__corro_bookkeeping_gaps"}
    R.require(want <= reads, "tables", b.where(), "from_conn reads %s" % sorted(reads & want),
              fail_msg="from_conn no longer reads %s: state advertised after restart would not match what is stored" % sorted(want - reads))
    R.require(any((c.t.get("r") or c.f) == INSERT_PARTIAL for c in b.calls), "via-insert_partial", b.where(), "partials are rebuilt through insert_partial",
              fail_msg="from_conn no longer rebuilds partials through insert_partial")
    R.require(any((c.t.get("r") or c.f) == COMMIT_SNAPSHOT for c in b.calls) and any((c.t.get("r") or c.f) == BV + "::snapshot" for c in b.calls), "via-snapshot", b.where(),
              "gaps are rebuilt through snapshot/commit_snapshot", fail_msg="from_conn no longer rebuilds gaps through snapshot + commit_snapshot")
    # every column the seq-bookkeeping writer stores is read back
    rows = [s.sql for s in sqlinv.inventory(F, [b]) if "__corro_seq_bookkeeping" in s.reads]
    R.require(bool(rows) and all(col in rows[0] for col in ("db_version", "start_seq", "end_seq", "last_seq", "ts")), "seq-columns", b.where(),
              "reload selects db_version,start_seq,end_seq,last_seq,ts", fail_msg="reload of __corro_seq_bookkeeping lacks a stored column: %s" % rows)


# ------------------------------------------------------------------------------------------------ read1
def read1(ctx):
    F, G = ctx.F, ctx.G
    R = ctx.rule("C02.read1", "K4", "generate_sync derives heads, need and partial_need of one actor from a single Booked read guard")
    b = cm.main_coroutine(F, "klukai_types::sync::generate_sync")
    if not R.anchor(b, "generate_sync", "async fn generate_sync"):
        return
    polls = [c for c in b.calls if c.f == "core::future::future::Future::poll" and "BookedVersions" in c.t.get("dty", "") and "ReadGuard" in c.t.get("dty", "")]
    R.require(len(polls) == 1, "one-guard", b.where(), "exactly one Booked::read(..).await per actor iteration", fail_msg="generate_sync takes %d booked read guards per iteration (torn read across lock acquisitions)" % len(polls))
    if len(polls) != 1:
        return
    g = polls[0]
    gsrc = {g.bb} | {oc.bb for oc in flow.origin_calls(flow.origins(b, op_place(g.args[0]), at=(g.bb, "T")))}

    def derives(place, at, hops=8):
        """the value is computed from the guard through a chain of receiver calls"""
        work = [(place, at, hops)]
        seen = set()
        while work:
            pl, at_, h = work.pop()
            for o in flow.origins(b, pl, at=at_):
                if o.kind != "call":
                    continue
                if o.call.bb in gsrc:
                    return True
                if h > 0 and o.call.bb not in seen and o.call.args and op_place(o.call.args[0]) is not None:
                    seen.add(o.call.bb)
                    work.append((op_place(o.call.args[0]), (o.call.bb, "T"), h - 1))
        return False
    inserts = [c for c in b.calls if re.search(r"HashMap::<K, V, S>::insert$|hash_map::Entry::<'a, K, V>::or_default$|map::HashMap::<K, V, S>::entry$", c.f)]
    stateful = [c for c in b.calls if re.search(r"HashMap::<K, V, S>::insert$", c.f)]
    n = 0
    for c in stateful:
        org = cm.operand_origins(b, c, 2) if len(c.args) > 2 else set()
        srcs = {o.call.bb for o in org if o.kind == "call"}
        fields_ = {f for o in cm.operand_origins(b, c, 0) for f in o.field_names()}
        tag = "/".join(sorted(fields_ & {"heads", "need", "partial_need"})) or "map"
        n += 1
        derived = len(c.args) > 2 and op_place(c.args[2]) is not None and derives(op_place(c.args[2]), (c.bb, "T"))
        R.require(derived or tag == "map", "from-guard:%s#%d" % (tag, n), c.where(), "value inserted into state.%s derives from the single guard" % tag,
                  fail_msg="state.%s is filled from something other than the actor's single read guard: %s" % (tag, cm.origin_summary(org)))
    R.floor(n, 2, "state-inserts", "HashMap inserts into the sync state")
    # the guard is live across all of them (held-resource dataflow)
    for c in stateful:
        held = {h[0] for h in G.held_classes_at(b, c.bb)}
        R.require("booked" in held, "guard-live#%d" % stateful.index(c), c.where(), "the booked read guard is still held at the insert",
                  fail_msg="the booked read guard is not held when the sync state is filled (state may mix two snapshots)")


# ------------------------------------------------------------------------------------------------ seqbase
def seqbase(ctx, bodies=None, R=None):
    F = ctx.F
    R = R or ctx.rule("C02.seqbase", "K6", "every `full sequence range of a version` (lower..=last_seq) uses the same constant lower bound, the one is_complete() tests")
    sites = []
    for b in (bodies if bodies is not None else F.bodies.values()):
        if bodies is None and b.crate not in ("klukai_types", "klukai_agent", "corrosion"):
            continue
        for c in b.calls:
            if c.f != "core::ops::range::RangeInclusive::<Idx>::new" or "CrsqlSeq" not in c.self_ty:
                continue
            hi = cm.operand_origins(b, c, 1)
            if not any("last_seq" in o.field_names() or (o.kind == "call" and "last_seq" in b.lname(o.call.dest[0])) or _named_last_seq(b, o) for o in hi):
                continue
            lo = cm.operand_origins(b, c, 0)
            consts = {o.const.get("v") for o in lo if o.kind == "const" and o.const and "v" in o.const}
            if len(lo) == 1 and len(consts) == 1:
                sites.append((b, c, consts.pop()))
    if bodies is None and not R.floor(len(sites), 3, "sites", "constant-based `k..=last_seq` ranges"):
        return sites
    # reference: the constant Changeset::is_complete compares seqs.start() with
    ref = 0
    ic = F.get("klukai_types::broadcast::Changeset::is_complete")
    if ic is not None:
        ks = []
        for bl in ic.blocks:
            for s in bl["s"]:
                if s[0] == "A" and s[2][0] == "agg" and isinstance(s[2][1], dict) and s[2][1].get("adt", "").endswith("CrsqlSeq"):
                    k = op_const(s[2][2][0])
                    if k and "v" in k:
                        ks.append(k["v"])
        for pr in ic.promoted:
            for k in pr:
                if "v" in k and k.get("t") == "u64":
                    ks.append(k["v"])
        if ks:
            ref = ks[0]
    for b, c, k in sites:
        R.require(k == ref, "base@%s" % F.root_fn(b).id, c.where(), "full range starts at CrsqlSeq(%d) in %s" % (k, b.id),
                  fail_msg="`CrsqlSeq(%d)..=last_seq` in %s but completeness is defined from CrsqlSeq(%d): a version missing only its first sequence is treated as complete and never requested" % (k, b.id, ref))
    return sites


def _named_last_seq(b, o):
    if o.kind == "arg":
        return "last_seq" in b.lname(o.local)
    return False


# ------------------------------------------------------------------------------------------------ partialmax
def partialmax(ctx):
    """partials must lie within 1..head: recording a partial for a version not seen before raises max to it
    (the reload path from_conn relies on this: it replays the partial rows through insert_partial)"""
    F = ctx.F
    R = ctx.rule("C02.partialmax", "K6", "insert_partial raises the head (max) to the version whenever it records a new partial, so partially held versions never lie beyond the advertised head")
    b = F.get(INSERT_PARTIAL)
    if not R.anchor(b, "insert_partial", "fn " + INSERT_PARTIAL):
        return
    vins = [c for c in b.calls if re.search(r"btree::map::entry::VacantEntry::<'a, K, V, A>::insert(_entry)?$|BTreeMap::<K, V, A>::insert$", c.f)]
    mx = [x for x in cm.field_mutation_sites(F, BV, "max", [b]) if x[2].startswith("assign")]
    if not (R.anchor(vins, "vacant-insert", "insertion of a new partial") and
            R.require(bool(mx), "max-assign", b.where(), "insert_partial assigns self.max", fail_msg="insert_partial no longer updates self.max: a partial recorded for a version above the head stays beyond the advertised head (reload after restart advertises a head below its partials)")):
        return
    v = vins[0]
    # the head update is either `self.max = max(self.max, Some(version))` or the equivalent guarded assignment
    # `if Some(version) > self.max { self.max = Some(version) }`; its entry block must lie on the path of the new-partial insertion
    entries = []
    why = []
    for (bd, bb, how, line) in mx:
        for i, st in enumerate(b.blocks[bb]["s"]):
            if st[0] == "A" and st[3] == line and st[2][0] == "use" and op_place(st[2][1]) is not None:
                org = flow.origins(b, op_place(st[2][1]), at=(bb, i), stop=lambda call: call.name() in ("max", "min"))
                for o in org:
                    if o.kind == "call" and o.call.name() == "max":
                        a = cm.origin_summary(cm.operand_origins(b, o.call, 0)) + cm.origin_summary(cm.operand_origins(b, o.call, 1))
                        if any("max" in x for x in a) and any(x.startswith("arg2") for x in a):
                            entries.append(o.call.bb)
                            why.append("max(self.max, Some(version))")
    for c in b.calls:
        if c.name() == "max" and any(isinstance(p, list) and p[0] == "f" and p[2] == "max" for p in c.dest[1:]):
            a = cm.origin_summary(cm.operand_origins(b, c, 0)) + cm.origin_summary(cm.operand_origins(b, c, 1))
            if any("max" in x for x in a) and any(x.startswith("arg2") for x in a):
                entries.append(c.bb)
                why.append("max(self.max, Some(version))")
    for c in b.calls:
        if c.f.startswith("core::cmp::PartialOrd::") and c.name() in ("gt", "lt", "ge", "le") and "CrsqlDbVersion" in c.self_ty:
            a0 = cm.origin_summary(cm.operand_origins(b, c, 0))
            a1 = cm.origin_summary(cm.operand_origins(b, c, 1))
            v0, m0 = any(x.startswith("arg2") for x in a0), any("max" in x for x in a0)
            v1, m1 = any(x.startswith("arg2") for x in a1), any("max" in x for x in a1)
            if not ((v0 and m1) or (v1 and m0)):
                continue
            version_first = v0 and m1
            true_means_newer = (c.name() in ("gt", "ge")) == version_first
            te, fe = flow.true_false_targets(b, c)
            edges = te if true_means_newer else fe
            for (bd, bb, how, line) in mx:
                if edges and b.edges_dominate(edges, bb):
                    # value assigned: Some(version)
                    val_ok = False
                    for i, st in enumerate(b.blocks[bb]["s"]):
                        if st[0] == "A" and st[3] == line and any(isinstance(p_, list) and p_[0] == "f" and p_[2] == "max" for p_ in st[1][1:]):
                            srcp = op_place(st[2][1]) if st[2][0] == "use" else None
                            if st[2][0] == "agg":
                                names = [x for o_ in st[2][2] if op_place(o_) is not None for x in cm.origin_summary(flow.origins(b, op_place(o_), at=(bb, i)))]
                                val_ok = any(x.startswith("arg2") for x in names)
                            elif srcp is not None:
                                val_ok = any(x.startswith("arg2") for x in cm.origin_summary(flow.origins(b, srcp, at=(bb, i))))
                    if val_ok:
                        entries.append(c.bb)
                        why.append("if Some(version) %s self.max { self.max = Some(version) }" % ("newer-than"))
    same_arm = [e for e in entries if b.dominates(e, v.bb) or b.dominates(v.bb, e)]
    R.require(bool(same_arm), "max-with-new-partial", v.where(), "the head update (%s) is on the same path as the insertion of the new partial" % (why[0] if why else "?"),
              fail_msg="self.max is not updated on the path that inserts a new partial")
    R.require(bool(entries), "max-value", b.where(), "self.max becomes max(self.max, Some(version)) (%s)" % (why[0] if why else "?"),
              fail_msg="self.max is not set to max(self.max, Some(version)) in insert_partial (neither the max() form nor the guarded assignment was found)")


# ------------------------------------------------------------------------------------------------ publishes_all
def publishes_all(ctx):
    """commit_snapshot must publish all three components of the snapshot; insert_partial must merge seqs of a known partial"""
    F = ctx.F
    R = ctx.rule("C02.publishes", "K6", "commit_snapshot copies needed, partials and max from the snapshot's same-named fields; insert_partial merges the new seqs into an existing partial")
    b = F.get(COMMIT_SNAPSHOT)
    if R.anchor(b, "commit_snapshot", "fn " + COMMIT_SNAPSHOT):
        for f in ("needed", "partials", "max"):
            sites = [x for x in cm.field_mutation_sites(F, BV, f, [b]) if x[2].startswith("assign")]
            ok = False
            src = set()
            for (bd, bb, how, line) in sites:
                t = b.term(bb)
                # `self.f = mem::take(&mut snap.f)` / `snap.f.take()`: the call writing into self.f
                if how == "assign-call":
                    from corrolint.facts import Call
                    c = Call(b, bb, t)
                    for a in c.args:
                        if op_place(a) is not None:
                            src |= cm.deep_arg_fields(b, op_place(a), (bb, "T"))
                for i, st in enumerate(b.blocks[bb]["s"]):
                    if st[0] == "A" and st[3] == line and st[2][0] == "use" and op_place(st[2][1]) is not None:
                        src |= cm.deep_arg_fields(b, op_place(st[2][1]), (bb, i))
            ok = any(x.startswith("arg2") and x.endswith(f) for x in src)
            R.require(bool(sites) and ok, "copies." + f, b.where(), "self.%s is taken from snap.%s" % (f, f),
                      fail_msg="commit_snapshot does not publish snap.%s into self.%s (sources: %s): the in-memory view would diverge from the rows the transaction just committed" % (f, f, sorted(src)))
    ip = F.get(INSERT_PARTIAL)
    if R.anchor(ip, "insert_partial", "fn " + INSERT_PARTIAL):
        ext = [c for c in ip.calls if re.search(r"RangeInclusiveSet::<T.*>::(extend|insert)$|::extend$", c.f) and "CrsqlSeq" in (c.self_ty + c.fi)]
        ok = False
        for c in ext:
            a = cm.deep_arg_fields(ip, op_place(c.args[1]), (c.bb, "T")) if len(c.args) > 1 and op_place(c.args[1]) is not None else set()
            if any(x.startswith("arg3") and "seqs" in x for x in a):
                ok = True
        R.require(ok, "merges-seqs", ip.where(), "an already known partial has the new chunk's seqs merged in (got.seqs.extend(partial.seqs))",
                  fail_msg="insert_partial no longer merges the incoming seqs into an existing partial: received chunks would be forgotten in memory while their rows are stored")


# ------------------------------------------------------------------------------------------------ pcomplete
def pcomplete(ctx):
    """generate_sync leaves a partial out of partial_need (= advertises it as held) when PartialVersion::is_complete() says so;
    so is_complete may only be true when there is no gap of seqs over the FULL range 0..=last_seq   (added after C02-c)"""
    F = ctx.F
    R = ctx.rule("C02.pcomplete", "K4", "PartialVersion::is_complete is decided by seqs.gaps(full_range()) on every path (a partial dropped from partial_need has no missing sequence)")
    PV = "klukai_types::agent::PartialVersion"
    b = F.get(PV + "::is_complete")
    if not R.anchor(b, "is_complete", "fn PartialVersion::is_complete"):
        return
    gaps = [c for c in b.calls if c.name() == "gaps" and "RangeInclusiveSet" in c.f]
    if not R.require(bool(gaps), "uses-gaps", b.where(), "is_complete walks seqs.gaps(..)",
                     fail_msg="PartialVersion::is_complete no longer computes the gaps of the received seqs over the version's full range: a partial with missing sequences (e.g. only a tail range) could be reported complete and be advertised as held"):
        return
    g = gaps[0]
    recv = cm.deep_arg_fields(b, op_place(g.args[0]), (g.bb, "T")) if op_place(g.args[0]) is not None else set()
    R.require(any(x == "arg1.seqs" or x.startswith("arg1.seqs") for x in recv), "gaps-of-seqs", g.where(), "the gaps are those of self.seqs", fail_msg="gaps() is not taken over self.seqs (%s)" % sorted(recv)[:4])
    org = cm.operand_origins(b, g, 1)
    full = [o for o in org if o.kind == "call" and (o.call.name() == "full_range" or o.call.f.endswith("RangeInclusive::<Idx>::new"))]
    R.require(bool(org) and len(full) == len([o for o in org if o.kind == "call"]) and bool(full), "over-full-range", g.where(), "the range walked is full_range() (0..=last_seq, see C03.apply / fix F3)",
              fail_msg="is_complete walks gaps over %s, not over full_range()" % cm.origin_summary(org))
    rets = [bb for bb in b.live_blocks() if b.term(bb)["t"] == "ret"]
    R.require(bool(rets) and all(b.dominates(g.bb, r) for r in rets), "gaps-on-every-path", b.where(), "every return of is_complete passes through the gaps walk",
              fail_msg="is_complete has a path to its return that bypasses the gaps walk")
    # the verdict is 'no gap': count()==0 / next().is_none() / is_empty-like on the gaps iterator
    ro = flow.origins(b, [0])
    names = {o.call.name() for o in ro if o.kind == "call"}
    R.require(bool(names) and names <= {"count", "next", "is_none", "is_some", "any", "all", "eq", "ne", "not"}, "verdict-from-gaps", b.where(), "the result is computed from the gaps iterator (%s)" % sorted(names),
              fail_msg="is_complete's result derives from %s" % sorted(names))


# ------------------------------------------------------------------------------------------------ contains
def contains(ctx):
    F = ctx.F
    R = ctx.rule("C02.contains", "K9", "contains_version(v): false if v lies in a needed range; otherwise true exactly when max >= v")
    b = F.get(BV + "::contains_version")
    if not R.anchor(b, "contains_version", "fn BookedVersions::contains_version"):
        return
    cmps = [c for c in b.calls if flow.is_compare(c) and "CrsqlDbVersion" in c.self_ty and c.name() in ("lt", "le", "gt", "ge")]

    def fields_of(c, i):
        return cm.deep_arg_fields(b, op_place(c.args[i]), (c.bb, "T")) if op_place(c.args[i]) is not None else set()
    heads = [c for c in cmps if any(x == "arg1.max" or x.startswith("arg1.max.") for x in fields_of(c, 0) | fields_of(c, 1))]
    gapc = [c for c in cmps if c not in heads and any(x.startswith("arg1.needed") for x in fields_of(c, 0) | fields_of(c, 1))]
    anys = [c for c in b.calls if c.name() == "any"]
    if not R.require(len(heads) == 1, "head-compare", b.where(), "one ordering comparison with the head", fail_msg="expected one ordering comparison max ? version in contains_version, found %d" % len(heads)):
        return
    c = heads[0]
    a_first = any("max" in x for x in fields_of(c, 0))   # role A = self.max, B = version
    want = {("<", False): {False}, ("=", False): {True}, (">", False): {True}, ("<", True): {False}, ("=", True): {False}, (">", True): {False}}
    res = {}
    if gapc and not anys:
        # the membership test is written out as a loop over self.needed: `gap.start() <= v && v <= gap.end()`
        def bound(g, i):
            p_ = op_place(g.args[i])
            if p_ is None:
                return set()
            return {o.call.name() for o in flow.origins(b, p_, at=(g.bb, "T"), stop=lambda cc: cc.name() in ("start", "end")) if o.kind == "call" and o.call.name() in ("start", "end")}
        lo = [g for g in gapc if "start" in bound(g, 0) | bound(g, 1)]
        hi = [g for g in gapc if "end" in bound(g, 0) | bound(g, 1)]
        if not (R.require(len(lo) == 1 and len(hi) == 1, "gap-tests", b.where(), "one test against the gap's start and one against its end", fail_msg="could not identify the gap bounds tests in contains_version (%d start, %d end)" % (len(lo), len(hi)))):
            return
        glo, ghi = lo[0], hi[0]
        lo_first = "start" in bound(glo, 0)     # role A = gap.start()
        hi_first = "end" in bound(ghi, 0)       # role A = gap.end()
        for o in ("<", "=", ">"):
            for so in ("<", "=", ">"):          # gap.start ? v
                for eo in ("<", "=", ">"):      # gap.end ? v
                    inneeded = so in ("<", "=") and eo in ("=", ">")
                    atom = {c.bb: flow.compare_value(c.name(), o, a_first), glo.bb: flow.compare_value(glo.name(), so, lo_first), ghi.bb: flow.compare_value(ghi.name(), eo, hi_first)}
                    # "v lies in a needed range" presupposes a range: evaluate from inside the loop body then
                    first = glo.bb if b.dominates(glo.bb, ghi.bb) else ghi.bb
                    _, rets = flow.eval_guard(b, atom, start=first) if inneeded else flow.eval_guard(b, atom)
                    res.setdefault((o, inneeded), set()).update(rets)
        a = glo
    else:
        if not R.anchor(anys, "needed.any", "needed.iter().any(..)"):
            return
        a = anys[0]
        for o in ("<", "=", ">"):
            for inneeded in (False, True):
                atom = {c.bb: flow.compare_value(c.name(), o, a_first), a.bb: inneeded}
                _, rets = flow.eval_guard(b, atom)
                res[(o, inneeded)] = rets
    R.require(res == want, "truth-table", c.where(), "contains_version over (max ? v, v in needed): %s" % {k: sorted(map(str, v)) for k, v in res.items()},
              fail_msg="contains_version truth table is %s; expected held iff (max >= v and v not needed): a version equal to the head or inside a gap would be misreported" % {k: sorted(map(str, v)) for k, v in res.items()})
    if a in gapc:
        R.ok("any-over-needed", a.where(), "the membership test ranges over self.needed (explicit loop)")
        return
    fl = cm.deep_names(b, op_place(a.args[0]), (a.bb, "T"))[0]
    R.require("needed" in fl, "any-over-needed", a.where(), "the membership test ranges over self.needed")


def gapsphase(ctx):
    """compute_gaps_change gathers into `insert_set` whole stored gap ranges (those overlapping or adjoining each applied range)
    and then strikes the applied versions out of it.  The strike must come after *all* gathering: a stored range gathered for a
    later applied range would put an already struck version back, leaving a held version in `needed` (memory and gap table)."""
    F = ctx.F
    R = ctx.rule("C02.gapsphase", "K2", "compute_gaps_change strikes the applied versions from insert_set only after all gap ranges have been gathered (no insert after a remove)")
    b = F.get(VS + "::compute_gaps_change")
    if not R.anchor(b, "compute_gaps_change", "fn VersionsSnapshot::compute_gaps_change"):
        return

    ins = [c for c in b.calls if re.search(r"RangeInclusiveSet::<T.*>::insert$", c.f) and _recv_field(b, c) == "insert_set"]
    rem = [c for c in b.calls if re.search(r"RangeInclusiveSet::<T.*>::remove$", c.f) and _recv_field(b, c) == "insert_set"]
    if not (R.floor(len(ins), 3, "gathers", "insert_set.insert sites") and R.floor(len(rem), 1, "strikes", "insert_set.remove sites")):
        return
    bad = [(r, i) for r in rem for i in ins if b.can_reach(r.bb, i.bb)]
    R.require(not bad, "strike-after-gather", rem[0].where(), "no insert_set.insert is reachable from an insert_set.remove (%d gathers, %d strikes)" % (len(ins), len(rem)),
              fail_msg="insert_set.insert at %s can run after insert_set.remove at %s: a stored gap range gathered for a later applied range re-adds versions already struck, "
                       "so a version applied in the same batch stays in `needed` (e.g. stored gap 1..=29, batch {12, 15}: 12 stays needed)"
                       % (bad[0][1].where() if bad else "", bad[0][0].where() if bad else ""))


def _recv_field(b, c):
    """name of the field the receiver of a method call is borrowed from (`&mut changes.insert_set` -> insert_set)"""
    p = op_place(c.args[0]) if c.args else None
    seen = set()
    while p is not None and p[0] not in seen:
        seen.add(p[0])
        for x in reversed(p[1:]):
            if isinstance(x, list) and x[0] == "f" and x[2]:
                return x[2]
        nxt = None
        for d in b.defs.get(p[0], []):
            if d[2] == "assign":
                rv = d[3][1]
                if rv[0] == "ref":
                    nxt = rv[2]
                elif rv[0] == "use" and op_place(rv[1]) is not None:
                    nxt = op_place(rv[1])
        p = nxt
    return None
