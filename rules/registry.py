"""Per-property claim texts for MANIFEST.json. `implemented` lists the properties whose rules exist in rules/Cxx.py."""

NOT_APPLICABLE = {
    "C01": "convergence is a property of cr-sqlite's merge function (pre-built binary extension, no source in the tree) composed "
           "with runtime delivery schedules and gap arithmetic; no static argument over this repository's source can bound it. "
           "Its structural ingredients are decided under C02/C03/C05/C06/C10 (DESIGN.md §4)",
    "C11": "incremental view maintenance must equal re-evaluation for every user-supplied SELECT x history; the maintenance SQL is "
           "synthesised at run time from the parsed query, so its correctness is a semantic equivalence of SQL programs over all "
           "database states: out of reach of dataflow/typestate/shape analysis (DESIGN.md §4)",
}

CLAIMS = {
    "C02": dict(
        text="Decides structural clauses only: bookkeeping memory is published (commit_snapshot/insert_partial) only after the commit "
             "of the transaction that wrote the gap/partial rows; insert_db uses the data transaction; closed inventories of writers of "
             "the bookkeeping tables and of BookedVersions/VersionsSnapshot fields; paired DB/in-memory gap updates; reload reads the "
             "tables the writers write; one lock guard per actor in generate_sync; one constant base for 'full sequence range'; commit_snapshot copies every field; the contains_version "
             "truth table; a new partial raises the head; compute_gaps_change strikes applied versions only after all gap ranges are gathered. "
             "Does NOT decide the remaining range arithmetic of compute_gaps_change nor the partition of 1..head (runtime values).",
        note="SQLite atomic commit, rusqlite Transaction drop = rollback, rangemap semantics trusted; value-level gap arithmetic not decided",
        technique="MIR dominance (publish-after-commit), who-may-write inventories, sibling agreement of constants/SQL tables",
        ref="§3 C02"),
    "C03": dict(
        text="Decides structural clauses: only complete changesets reach crsql_changes (closed writer inventory; is_complete truth table; "
             "apply guarded by zero gaps over 0..=last_seq; single INSERT..SELECT in the bookkeeping transaction); the seq-range merge "
             "SQL predicate is equivalent to overlap-or-adjacent on an exhaustive small box; column lists agree; the Cleared fast path is taken iff complete and empty; "
             "buffered rows are deleted in the applying transaction; at restart the received ranges are reloaded row by row, unaggregated. "
             "Does NOT decide equality with the unchunked apply (cr-sqlite) nor liveness.",
        note="cr-sqlite merge semantics, SQLite, rangemap trusted",
        technique="MIR dominance + guard truth tables + SQL predicate evaluation on an exhaustive box + column agreement",
        ref="§3 C03"),
    "C04": dict(
        text="Decides narrow structural clauses of compute_available_needs: every pushed need is dominated by the own-actor and zero-head "
             "skips; request ranges derive only from the peer's advertised heads / needs; client requests derive only from the computed needs; every non-skipped "
             "advertised head consults our need, partial_need and head, and each productive branch reaches its push (structural half of completeness). "
             "Does NOT decide soundness/completeness as set inclusions over all state pairs.",
        note="rangemap semantics trusted; set arithmetic on runtime values not decided",
        technique="MIR dominance of guards + provenance slices",
        ref="§3 C04"),
    "C05": dict(
        text="Decides structural clauses of the sync server: 'empty' is declared only on the (not needed, not buffered) edge; Changeset::Empty "
             "only from that set; needs are filtered by the server's own bookkeeping before being served; all queries of one need share one "
             "read transaction; chunker range parameters equal the SQL range parameters; SELECT column lists agree with row_to_change; "
             "cluster check and rejection precede state/data in serve_sync; leftover ranges only shrink by what was served; after a row error no further chunk of "
             "that version is pulled or sent. Does NOT decide correctness for every DB state x request.",
        note="SQLite snapshot isolation, speedy framing trusted",
        technique="MIR dominance, guard truth tables, parameter/column agreement",
        ref="§3 C05"),
    "C06": dict(
        text="Decides the structural mechanism of crash safety: every data/bookkeeping DML of a step runs on one transaction value (no DML on a bare "
             "connection in writer bodies), bookkeeping rows are written before that transaction's commit, reload reads exactly the tables "
             "writers write (every row of the actor, unaggregated, until exhaustion, each row recorded), startup re-schedules every fully buffered version, durability "
             "pragmas present. Does NOT place crashes.",
        note="SQLite atomic commit + WAL/synchronous=NORMAL durability semantics trusted",
        technique="receiver-type/provenance inventory of SQL execution sites, dominance, table-set agreement",
        ref="§3 C06"),
    "C07": dict(
        text="Decides structural clauses of local writes: error edges before commit reach return without publishing or broadcasting; commit_snapshot and "
             "the broadcast spawn are dominated by commit's Ok edge and by the 'changes exist' arm; the write connection and the own booked write guard "
             "are held across the transaction; broadcast chunking uses 0..=last_seq of the same version and waits for queue capacity; 'nothing to book' is answered "
             "only when MAX(seq) is NULL; a chunker row error stops the announcement. Does NOT decide gap-freeness of cr-sqlite's counter.",
        note="rusqlite rollback-on-drop, cr-sqlite db_version counter trusted",
        technique="MIR dominance / error-edge reachability / held-resource dataflow",
        ref="§3 C07"),
    "C08": dict(
        text="Decides the inductive-step facts of the tiling proof in ChunkedChanges::next (each yielded range starts at the cursor; a non-final yield ends "
             "at the last pushed seq and advances the cursor to it + 1; the final yield ends at last_seq, latches done and is entered only when the row source is "
             "exhausted or the last seq was pushed) and stride/length agreement of "
             "chunk_range. Does NOT evaluate inputs nor decide the premise (strictly increasing seqs).",
        note="inputs strictly increasing within [start,last] is the theorem's premise, not decided",
        technique="provenance slices on the cursor fields + dominance",
        ref="§3 C08"),
    "C09": dict(
        text="Strong on totality: over the call-graph closure of every decode entry point (UniPayload/BiPayload/SyncMessage decode, unpack_columns, every "
             "workspace Readable impl) no reachable panic site, no peer-derived unchecked allocation size, no unchecked UTF-8 constructor, no unguarded "
             "bytes::Buf read (directly or at every call site of a read helper), variable widths within 1..=8. Structural on round-trip: writer/reader call shapes, loop "
             "bounds, tag constants and the integer width/extension convention agree. Value-level round-trip equality in general and byte compatibility with "
             "cr-sqlite's packer are NOT decided.",
        note="speedy's own Reader methods are bounded by remaining input provided the element type declares a positive minimum_bytes_needed (read 0.8.7 source; C09.vecmin checks the proviso); third-party decoders (foca/bincode) trusted",
        technique="effect reachability over the decode call-graph closure + provenance of allocation sizes + codec shape agreement",
        ref="§3 C09"),
    "C10": dict(
        text="Decides structural clauses of load shedding: the seen-cache eviction key derives from the dropped queue element; the drop/suppress paths "
             "issue no SQL and take no bookkeeping write lock; every skip edge is one of the enumerated reasons; cost accounting pairs dropped/pushed "
             "elements; the in-batch dedupe key has actor, versions and seqs. Does NOT decide liveness ('applied after finitely many offers').",
        note="schedules/timing not decided",
        technique="provenance slices + effect summaries + dominance",
        ref="§3 C10"),
    "C12": dict(
        text="Decides the 'stop instead of continuing past a gap' clause only: Lagged receivers return; failed catch-up returns without forwarding; buffered "
             "events are forwarded iff id > last id; the client reports MissedChange exactly when id != last+1 and resumes from its last id; the attach snapshot (rows + "
             "last change id) is read inside one transaction at every call site. The race between "
             "catch-up and live events is a schedule property and is NOT decided.",
        note="tokio broadcast Lagged semantics trusted",
        technique="MIR reachability from error arms + guard truth tables",
        ref="§3 C12"),
    "C13": dict(
        text="Decides the typestate of the durable subscription marker: 'completed' is written only after the drain loop ended and the last candidates were "
             "handled successfully; restore proceeds only from 'completed' and resets to 'running' before serving; failed restores are cleaned up. "
             "Does NOT decide equality of materialised rows after restart (C11).",
        note="SQLite durability trusted",
        technique="who-may-write inventory of the marker + dominance + guard truth table",
        ref="§3 C13"),
    "C14": dict(
        text="Decides narrow structural clauses: every commit path feeds both the subscription and the update managers after commit; the stale-suppression "
             "guard skips exactly cached cl > incoming cl; delete iff even causal length; the per-table filter is column-independent; the causal-length cache is trimmed "
             "only from its oldest end. "
             "Ordering under out-of-order merge and bounded-cache effects are NOT decided.",
        note="histories/schedules not decided",
        technique="paired-call agreement + guard truth tables",
        ref="§3 C14"),
    "C15": dict(
        text="Decides structural clauses: in-memory schema is replaced only after the commit of the single schema transaction; every refusal variant is "
             "constructed and returned before any SQL runs; destructive SQL exists only in the 12-step block which is unreachable by correlated guards; "
             "persisted and loaded schema tables agree. Does NOT decide SQLite's ADD COLUMN semantics or value-level idempotence.",
        note="SQLite DDL semantics trusted",
        technique="MIR dominance + refusal-variant inventory + correlated-branch reachability",
        ref="§3 C15"),
    "C16": dict(
        text="Strong structural claim: the change pipeline has exactly two ingest senders and each is behind a cluster-id equality test; serve_sync rejects a "
             "different cluster before anything else; sync partners and broadcast targets are filtered by cluster equality; outgoing frames are stamped with the "
             "agent's cluster id. Already-open connections after a runtime cluster-id change are NOT decided.",
        note="quinn/speedy transport trusted; runtime SetId dynamics not decided",
        technique="who-may-send inventory + dominance by equality guard + provenance of compared values",
        ref="§3 C16"),
    "C17": dict(
        text="Strong on authorization: every route is added to the single router before the authz layer, nothing after it, one router/serve site; the middleware "
             "reaches next.run only on (no token configured) or exact string equality; otherwise returns 401. Partial on read-only: query endpoints use the "
             "read-only pool and the readonly() guard; subscription SQL is only ever stepped inside never-committed transactions. SQLite's readonly()/OPEN_READ_ONLY "
             "semantics are trusted.",
        note="axum layering semantics (a layer wraps routes added before it), axum-extra header parsing, SQLite read-only semantics trusted",
        technique="builder-chain order analysis + guard truth table + connection provenance + never-commit rule",
        ref="§3 C17"),
    "C18": dict(
        text="Decides structural clauses of the membership view: add_member/remove_member timestamp guard truth tables; the two indexes (states, by_addr) are "
             "updated in pairs on every path; ring0 requires ring==0 and same cluster; notification->operation mapping. The fold over all notification "
             "sequences is NOT decided.",
        note="foca notification contract trusted",
        technique="guard truth tables + paired-update agreement",
        ref="§3 C18"),
    "C19": dict(
        text="Decides narrow structural clauses: every destructive step of restore is dominated by lock_all's success; all lock bytes are taken; copy is verified and "
             "synced; backup clears node-local tables on the copy; backup and restore enumerate clock tables with the same query. Equality of restored data and "
             "reader-visible atomicity (POSIX/SQLite locking) are NOT decided.",
        note="POSIX fcntl lock semantics and SQLite's locking protocol trusted",
        technique="MIR dominance + constant-table exhaustiveness + SQL constant agreement",
        ref="§3 C19"),
    "C20": dict(
        text="Strong structural claim: WriteConn has one constructor (write_inner) and owns conn + queue guard + permit; the RW pool has max_size 1 and the write "
             "semaphore 1 permit; write_inner acquires in a fixed dominance order under timeouts; the dispatcher is a biased select over (priority, normal, low) "
             "granting one request at a time; the global lock-order graph over all workspace bodies (through awaits and callees) is acyclic and conforms to "
             "conn -> bookie -> booked; no same-class nesting; no sync guard across await; no blocking acquisition in async context. Fairness and timing are NOT decided.",
        note="tokio/deadpool/parking_lot semantics, select! biased order trusted; fairness/starvation not decided",
        technique="held-resource dataflow + may-acquire summaries -> lock-order graph (SCC), who-may-construct, dominance, provenance",
        ref="§3 C20"),
}
