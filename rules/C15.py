"""C15 — schema changes are additive, atomic, idempotent and survive restart (structural clauses)."""
import re

from corrolint import flow
from corrolint.facts import op_place, op_const, op_local
from . import common as cm
from . import sqlinv, tx

EXEC = "klukai_agent::api::public::execute_schema"
APPLY = "klukai_types::schema::apply_schema"
CONSTRAIN = "klukai_types::schema::Schema::constrain"
PARSE = "klukai_types::schema::parse_sql_to_schema"
INIT = "klukai_types::schema::init_schema"

REFUSALS = {
    APPLY: ("klukai_types::schema::ApplySchemaError", ["DropTableWithoutDestructiveFlag", "RemoveColumnWithoutDestructiveFlag", "ChangeColumnWithoutDestructiveFlag",
                                                      "AddPrimaryKey", "ModifyPrimaryKeys", "ImportedSchemaPkMismatch", "ImportedSchemaColumnsMismatch"]),
    CONSTRAIN: ("klukai_types::schema::ConstrainedSchemaError", ["UniqueIndex", "NotNullableColumnNeedsDefault", "ForeignKey", "PrimaryKeyExpr"]),
    PARSE: ("klukai_types::schema::SchemaError", ["TemporaryTable", "UnsupportedCmd"]),
}


def run(ctx):
    ctx.trust("SQLite: ALTER TABLE ADD COLUMN keeps existing rows; DDL inside a transaction rolls back with it", "sqlite3_parser AST -> SQL text")
    ctx.assume("value-level idempotence of re-application and SQLite's DDL semantics are not decided")
    publish(ctx)
    onetx(ctx)
    refuse(ctx)
    guards(ctx)
    destructive(ctx)
    persist(ctx)


def _exec_bodies(F):
    co = cm.main_coroutine(F, EXEC)
    fam = F.family(F.get(EXEC)) if F.get(EXEC) else []
    cl = next((b for b in fam if tx.tx_begins(b)), None)
    return co, cl


def publish(ctx):
    F, G = ctx.F, ctx.G
    R = ctx.rule("C15.publish", "K2", "execute_schema replaces the in-memory schema only after the schema transaction committed; validation precedes the transaction")
    co, cl = _exec_bodies(F)
    if not (R.anchor(co, "execute_schema", "async fn execute_schema") and R.anchor(cl, "closure", "transaction closure of execute_schema")):
        return
    # the store `*schema_write = new_schema`
    stores = []
    for bb in co.live_blocks():
        for i, s in enumerate(co.blocks[bb]["s"]):
            if s[0] == "A" and len(s[1]) == 2 and s[1][1] == "*" and re.search(r"^&mut klukai_types::schema::Schema$", co.ty(s[1][0])):
                stores.append((bb, i, s))
    if not R.require(len(stores) == 1, "store", co.where(), "one whole-schema store", fail_msg="expected one `*schema_write = ..` store, found %d" % len(stores)):
        return
    sbb = stores[0][0]
    passed, created = G.closure_operands(co)
    runs = [call for call, cid, i in passed if cid == cl.id]
    if not R.anchor(runs, "block_in_place", "call running the transaction closure"):
        return
    oks = flow.ok_edge_of(co, runs[0])
    R.require(bool(oks) and co.edges_dominate(oks, sbb), "store-after-ok", co.where(sbb), "the in-memory schema is replaced only on the Ok edge of the transaction closure",
              fail_msg="the in-memory schema can be replaced although applying the schema failed (store not dominated by the closure's Ok edge)")
    good, why = tx.closure_ok_returns_after_commit(F, cl)
    R.require(good, "ok-implies-commit", cl.where(), "the closure returns Ok only after tx.commit() succeeded (%s)" % why,
              fail_msg="the schema closure can return Ok without a successful commit: %s" % why)
    # the value stored is the schema that apply_schema worked on
    src = op_place(stores[0][2][2][1]) if stores[0][2][2][0] == "use" else None
    # validation before the transaction: constrain()? and parse_sql()? dominate the closure run
    for name, rx in (("constrain", CONSTRAIN), ("parse_sql", "klukai_types::schema::parse_sql")):
        cs = [c for c in co.calls if (c.t.get("r") or c.f) == rx]
        if R.anchor(cs, name, "%s call in execute_schema" % name):
            oke = flow.ok_edge_of(co, cs[0])
            R.require(bool(oke) and co.edges_dominate(oke, runs[0].bb), "%s-before-tx" % name, cs[0].where(), "%s()? succeeds before the transaction starts" % name,
                      fail_msg="the schema transaction can start although %s failed" % name)
    # write connection and schema write lock are both held while the closure runs and until the store
    held = {h[0] for h in G.held_classes_at(co, runs[0].bb)}
    R.require({"conn", "pl:Schema"} <= held, "locks-held", runs[0].where(), "write connection and schema write lock held across the transaction (%s)" % sorted(held),
              fail_msg="execute_schema does not hold both the write connection and the schema lock across the transaction: held %s" % sorted(held))
    held2 = {h[0] for h in G.held_classes_at(co, sbb)} | {h[0] for bbx in co.pred[sbb] for h in G.held_classes_at(co, bbx)}
    R.require("pl:Schema" in held2, "lock-until-store", co.where(sbb), "the schema write lock is still held at the store")


def onetx(ctx):
    F = ctx.F
    R = ctx.rule("C15.onetx", "K1", "apply_schema and the __corro_schema rewrite run on the one transaction begun in execute_schema, committed once")
    co, cl = _exec_bodies(F)
    if not R.anchor(cl, "closure", "transaction closure of execute_schema"):
        return
    begins = tx.tx_begins(cl)
    cs = tx.commits(cl)
    R.require(len(begins) == 1 and len(cs) == 1, "one-begin-one-commit", cl.where(), "one begin, one commit", fail_msg="execute_schema closure has %d begins / %d commits" % (len(begins), len(cs)))
    key = {"tx:%s:%d" % (cl.id, begins[0].bb)} if begins else set()
    ap = [c for c in cl.calls if (c.t.get("r") or c.f) == APPLY]
    if R.anchor(ap, "apply_schema", "apply_schema call"):
        R.require(tx.tx_roots(F, cl, ap[0], 0) == key, "apply-on-tx", ap[0].where(), "apply_schema(&tx, ..) gets the transaction begun here",
                  fail_msg="apply_schema runs on %s" % sorted(tx.tx_roots(F, cl, ap[0], 0)))
        if cs:
            oke = flow.ok_edge_of(cl, ap[0])
            R.require(bool(oke) and cl.edges_dominate(oke, cs[0].bb), "commit-after-apply-ok", cs[0].where(), "commit is dominated by apply_schema's Ok edge",
                      fail_msg="the schema transaction can be committed although apply_schema failed")
    for s in sqlinv.inventory(F, [cl]):
        if s.writes or s.ddl:
            R.require(s.recv == key, "dml-on-tx:%s" % "+".join(sorted(s.writes | s.ddl)), s.call.where(), "%s on %s runs on the schema transaction" % (s.verb, sorted(s.writes | s.ddl)),
                      fail_msg="%s on %s runs on %s" % (s.verb, sorted(s.writes | s.ddl), sorted(s.recv)))
    # every SQL site of apply_schema runs on its tx parameter
    ab = F.get(APPLY)
    if R.anchor(ab, "apply_schema-body", "fn apply_schema"):
        bad = [s for s in sqlinv.inventory(F, F.family(ab)) if not all(r.startswith("param:1:") or r.startswith("tx:") for r in s.recv)]
        R.require(not bad, "apply-sites-on-param", ab.where(), "all SQL in apply_schema runs on its `tx` parameter",
                  fail_msg="apply_schema executes SQL on %s" % (sorted(bad[0].recv) if bad else ""))


def refuse(ctx):
    F = ctx.F
    R = ctx.rule("C15.refuse", "K1+K2", "every forbidden schema edit has a refusal: the error variant is constructed, returned, and no SQL runs between its detection and the return")
    for fn, (adt, variants) in REFUSALS.items():
        b = F.get(fn)
        if not R.anchor(b, fn.rsplit("::", 1)[-1], "fn " + fn):
            continue
        fam = F.family(b)
        for v in variants:
            sites = [(x,) + a for x in fam for a in cm.aggregates(x, adt, v)]
            if not R.require(bool(sites), "%s:%s" % (fn.rsplit("::", 1)[-1], v), b.where(), "refusal %s is constructed in %s" % (v, fn.rsplit("::", 1)[-1]),
                             fail_msg="refusal %s is no longer constructed in %s: the corresponding forbidden schema edit is not rejected" % (v, fn.rsplit("::", 1)[-1])):
                continue
            for (x, bb, i, place, k, ops, line) in sites:
                reach = x.reachable(bb)
                sql_after = [c for c in x.calls if c.bb in reach and c.bb != bb and cm.CONN_SQL.search(c.f)]
                rets = [r for r in x.return_blocks() if r in reach]
                # in closures (e.g. filter_map) the value is returned to the caller; accept
                R.require(not sql_after and bool(rets), "%s:%s.returns" % (fn.rsplit("::", 1)[-1], v), "%s:%d" % (x.file, line), "%s leads straight to return without running SQL" % v,
                          fail_msg="after constructing %s, %s still reaches SQL execution (%s) or does not return" % (v, x.id, sql_after[0].fi if sql_after else "no return"))
                # the constructed error flows into the Err return (not dropped)
                t, sinks = flow.taint(x, [place[0]], through_all_calls=True)
                R.require(0 in t or any(c.name() in ("from", "into", "from_residual") for c, _ in sinks), "%s:%s.flows" % (fn.rsplit("::", 1)[-1], v), "%s:%d" % (x.file, line),
                          "the %s value flows to the function's result" % v, fail_msg="the constructed %s is not returned" % v)


def guards(ctx):
    F = ctx.F
    R = ctx.rule("C15.guards", "K9", "the detecting conditions are `old minus new` set differences (dropped tables / columns) and per-column inequality (changed columns)")
    b = F.get(APPLY)
    if not R.anchor(b, "apply_schema", "fn apply_schema"):
        return
    diffs = [c for c in b.calls if c.f.endswith("HashSet::<T, S>::difference")]
    if not R.floor(len(diffs), 4, "differences", "HashSet::difference calls in apply_schema"):
        return

    def side(c, ai):
        f, calls = cm.deep_names(b, op_place(c.args[ai]), (c.bb, "T"), hops=8)
        org = set()
        work = [(op_place(c.args[ai]), (c.bb, "T"), 8)]
        seen = set()
        args = set()
        while work:
            pl, at, h = work.pop()
            for o in flow.origins(b, pl, at=at):
                if o.kind == "arg":
                    args.add(o.local)
                elif o.kind == "call" and h > 0 and o.call.bb not in seen and o.call.args and op_place(o.call.args[0]) is not None:
                    seen.add(o.call.bb)
                    work.append((op_place(o.call.args[0]), (o.call.bb, "T"), h - 1))
        return args, f

    # DropTable: the difference feeding the first refusal: receiver side from `schema` (arg 2), argument side from `new_schema` (arg 3)
    drops = cm.aggregates(b, "klukai_types::schema::ApplySchemaError", "DropTableWithoutDestructiveFlag")
    if R.anchor(drops, "drop-table", "DropTableWithoutDestructiveFlag construction"):
        dbb = drops[0][0]
        dom = [c for c in diffs if b.dominates(c.bb, dbb)]
        if R.anchor(dom, "drop-table.diff", "difference dominating the DropTable refusal"):
            c = dom[0]
            l, lf = side(c, 0)
            r, rf = side(c, 1)
            R.require(2 in l and 3 in r and "tables" in lf and "tables" in rf, "drop-table.old-minus-new", c.where(), "dropped tables = schema.tables \\ new_schema.tables (receiver from arg%s, argument from arg%s)" % (sorted(l), sorted(r)),
                      fail_msg="the dropped-table test computes (arg%s \\ arg%s): direction or operands wrong" % (sorted(l), sorted(r)))
            # refusal is on the Some edge of .next()
            nx = [x for x in b.calls if x.name() == "next" and b.dominates(c.bb, x.bb) and b.dominates(x.bb, dbb)]
            if R.anchor(nx, "drop-table.next", ".next() on the difference"):
                ve = flow.variant_edges(b, nx[0].dest)
                ok = any(b.edge_dominates((sw, m.get(1, other)), dbb) for sw, m, other in ve)
                R.require(ok, "drop-table.on-some", "%s:%d" % (b.file, drops[0][5]), "refused exactly when the difference is non-empty")
    rem = cm.aggregates(b, "klukai_types::schema::ApplySchemaError", "RemoveColumnWithoutDestructiveFlag")
    if R.anchor(rem, "remove-column", "RemoveColumnWithoutDestructiveFlag construction"):
        rbb = rem[0][0]
        dom = [c for c in diffs if b.dominates(c.bb, rbb) and "columns" in side(c, 0)[1]]
        if R.anchor(dom, "remove-column.diff", "columns difference dominating the RemoveColumn refusal"):
            c = dom[-1]
            lf, lcalls = cm.deep_names(b, op_place(c.args[0]), (c.bb, "T"), hops=8)
            rf, rcalls = cm.deep_names(b, op_place(c.args[1]), (c.bb, "T"), hops=8)
            # old table comes from schema.tables.get(name), new from new_schema.tables.get(name): distinguish by argument locals
            l, _ = side(c, 0)
            r, _ = side(c, 1)
            R.require(2 in l and 3 in r, "remove-column.old-minus-new", c.where(), "dropped columns = old.columns \\ new.columns (arg%s \\ arg%s)" % (sorted(l), sorted(r)),
                      fail_msg="the dropped-column test computes (arg%s \\ arg%s)" % (sorted(l), sorted(r)))
    # changed columns: the filter_map closure compares new_col != col
    cls = [x for x in F.family(b) if x.kind == "closure" and any(c.f in ("core::cmp::PartialEq::ne", "core::cmp::PartialEq::eq") and c.self_ty.endswith("schema::Column") for c in x.calls)]
    if R.anchor(cls, "changed-column.closure", "closure comparing Column values"):
        x = cls[0]
        c = [c for c in x.calls if c.f in ("core::cmp::PartialEq::ne", "core::cmp::PartialEq::eq") and c.self_ty.endswith("schema::Column")][0]
        ts = [y for y in x.calls if re.search(r"bool>?::then(_some)?$", y.f)]
        if R.anchor(ts, "changed-column.then", "bool::then on the comparison"):
            org = cm.operand_origins(x, ts[0], 0)
            direct = any(o.kind == "call" and o.call.bb == c.bb for o in org)
            R.require(direct and c.name() == "ne", "changed-column.ne", c.where(), "a column is `changed` exactly when new_col != col",
                      fail_msg="the changed-column condition is not `new_col != col` (%s via %s)" % (c.name(), cm.origin_summary(org)))


def destructive(ctx):
    F = ctx.F
    R = ctx.rule("C15.destructive", "K1+K2", "destructive SQL (DROP TABLE / RENAME / copy into a replacement table) exists only in the table-replacement block, which is unreachable: both tests of `changed_cols.is_empty()` see the same value")
    b = F.get(APPLY)
    if not R.anchor(b, "apply_schema", "fn apply_schema"):
        return
    destructive_sites = []
    for s in sqlinv.inventory(F, F.family(b)):
        up = s.sql.upper()
        if re.search(r"\bDROP\s+TABLE\b|\bRENAME\s+TO\b|\bDROP\s+COLUMN\b|\bDELETE\s+FROM\b|\bUPDATE\b.*\bSET\b", up) or (s.verb == "INSERT" and "SELECT" in up):
            destructive_sites.append(s)
    if not R.floor(len(destructive_sites), 1, "destructive-sites", "destructive statements in apply_schema (expected: only inside the dead replacement block)"):
        return
    ies = [c for c in b.calls if c.f.endswith("HashMap::<K, V, S>::is_empty")]
    # tie together the is_empty calls on the same never-mutated local
    groups = {}
    for c in ies:
        org = flow.origins(b, op_place(c.args[0]), at=(c.bb, "T"))
        key = tuple(sorted(o.key() for o in org))
        groups.setdefault(key, []).append(c)
    tied = [g for g in groups.values() if len(g) >= 2]
    if not R.anchor(tied, "correlated-tests", "two is_empty() tests on the same changed_cols value"):
        return
    g = tied[0]
    # the value must not be mutated between the tests: no &mut borrow of its origin local
    org_locals = set()
    for o in flow.origins(b, op_place(g[0].args[0]), at=(g[0].bb, "T")):
        if o.kind == "call":
            org_locals.add(o.call.dest[0])
    muts = []
    for bb in b.live_blocks():
        for s in b.blocks[bb]["s"]:
            if s[0] == "A" and s[2][0] == "ref" and s[2][1] == "mut" and s[2][2][0] in org_locals:
                muts.append(bb)
    R.require(not muts, "not-mutated", g[0].where(), "changed_cols is never mutably borrowed between the two tests", fail_msg="changed_cols is mutably borrowed (bb%s): the two is_empty() tests are not correlated" % muts)
    for s in destructive_sites:
        reach_any = False
        for v in (False, True):
            reach, _ = flow.eval_guard(b, {c.bb: v for c in g})
            if s.call.bb in reach:
                reach_any = True
        R.require(not reach_any, "dead:%s@L%d" % (s.verb, destructive_sites.index(s)), s.call.where(),
                  "destructive statement `%s` is unreachable under either (correlated) value of changed_cols.is_empty()" % " ".join(s.sql.split())[:50],
                  fail_msg="destructive statement `%s` in apply_schema is reachable: a schema submission can drop/replace a table" % " ".join(s.sql.split())[:60])
    # nothing destructive in execute_schema itself beyond the __corro_schema bookkeeping rewrite
    co, cl = _exec_bodies(F)
    if cl is not None:
        for s in sqlinv.inventory(F, [cl]):
            if s.verb in ("DELETE", "DROP", "UPDATE"):
                R.require(s.writes <= {"__corro_schema"}, "exec-delete:%s" % "+".join(sorted(s.writes)), s.call.where(), "execute_schema deletes only from its own __corro_schema bookkeeping",
                          fail_msg="execute_schema issues %s on %s" % (s.verb, sorted(s.writes)))


def persist(ctx):
    F = ctx.F
    R = ctx.rule("C15.persist", "K6", "the applied schema is persisted to __corro_schema in the schema transaction and read back from it at start")
    co, cl = _exec_bodies(F)
    if R.anchor(cl, "closure", "transaction closure of execute_schema"):
        inv = sqlinv.inventory(F, [cl])
        ins = [s for s in inv if s.verb == "INSERT" and "__corro_schema" in s.writes]
        dele = [s for s in inv if s.verb == "DELETE" and "__corro_schema" in s.writes]
        R.require(len(ins) == 1 and len(dele) == 1, "rewrite", cl.where(), "__corro_schema rows of each submitted table are rewritten (DELETE + INSERT..SELECT)",
                  fail_msg="execute_schema no longer rewrites __corro_schema (%d inserts, %d deletes)" % (len(ins), len(dele)))
        if ins:
            sql = ins[0].sql.lower()
            R.require("sqlite_schema" in sql and "'table'" in sql and "'index'" in sql, "from-sqlite_schema", ins[0].call.where(), "persisted from sqlite_schema for types table and index",
                      fail_msg="the __corro_schema INSERT no longer copies both tables and indexes from sqlite_schema")
            cs = tx.commits(cl)
            R.require(bool(cs) and all(cl.can_reach(x.call.bb, cs[0].bb) and not cl.can_reach(cs[0].bb, x.call.bb) for x in ins + dele), "rewrite-before-commit", ins[0].call.where(), "the rewrite precedes the commit")
    ib = F.get(INIT)
    if R.anchor(ib, "init_schema", "fn init_schema"):
        sq = [s.sql.lower() for s in sqlinv.inventory(F, [ib])]
        R.require(any("__corro_schema" in s and '"table"' in s for s in sq) and any("__corro_schema" in s and '"index"' in s for s in sq), "reads-both", ib.where(),
                  "init_schema reads tables and indexes from __corro_schema", fail_msg="init_schema no longer reads both tables and indexes from __corro_schema: %s" % sq)
    # setup: init_schema then constrain
    st = [b for b in F.family(F.get("klukai_agent::agent::setup::setup")) if any((c.t.get("r") or c.f) == INIT for c in b.calls)] if F.get("klukai_agent::agent::setup::setup") else []
    if R.anchor(st, "setup", "setup body calling init_schema"):
        b = st[0]
        i = [c for c in b.calls if (c.t.get("r") or c.f) == INIT][0]
        k = [c for c in b.calls if (c.t.get("r") or c.f) == CONSTRAIN]
        R.require(bool(k) and b.dominates(i.bb, k[0].bb), "init-then-constrain", i.where(), "the schema loaded at start is constrained before use",
                  fail_msg="setup no longer constrains the schema loaded from __corro_schema")
