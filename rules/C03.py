"""C03 — a remote transaction becomes visible atomically, exactly when all chunks arrived (structural clauses)."""
import itertools
import re

from corrolint import flow, sqlmini
from corrolint.facts import op_place, op_const, op_local
from . import common as cm
from . import sqlinv, tx

UTIL = "klukai_agent::agent::util::"
PSV = UTIL + "process_single_version"
PCV = UTIL + "process_complete_version"
PIV = UTIL + "process_incomplete_version"
PFB = UTIL + "process_fully_buffered_changes"
PMC = UTIL + "process_multiple_changes"
CHANGE_COLS = ["table", "pk", "cid", "val", "col_version", "db_version", "site_id", "cl", "seq", "ts"]


def run(ctx):
    ctx.trust("cr-sqlite applies rows inserted into crsql_changes with CRDT merge semantics", "SQLite atomic commit", "rangemap gaps()/insert semantics")
    ctx.assume("equality with the unchunked apply and eventual application (liveness) are not decided")
    writers(ctx)
    complete(ctx)
    isc(ctx)
    apply_(ctx)
    trigger(ctx)
    merge(ctx)
    failsafe(ctx)
    cols(ctx)
    cleared(ctx)
    clear_buf(ctx)
    reload_(ctx)
    # a relay serving a partially buffered version must not label rows with seqs it does not hold (added after C03-c):
    # otherwise the requester's gap check reaches zero and a strict subset of the transaction becomes visible
    from . import C05
    C05.buffered(ctx, rid="C03.relay")


# ------------------------------------------------------------------------------------------------ writers
def writers(ctx):
    F = ctx.F
    R = ctx.rule("C03.writers", "K1", "rows reach crsql_changes only through process_complete_version and process_fully_buffered_changes")
    sites = [s for s in sqlinv.inventory(F) if "crsql_changes" in s.writes]
    allowed = {PCV, PFB}
    for s in sites:
        root = F.root_fn(s.body).id
        R.require(root in allowed, "writer@%s" % root, s.call.where(), "%s INTO crsql_changes in %s" % (s.verb, root.rsplit("::", 1)[-1]),
                  fail_msg="a new writer of crsql_changes: %s in %s (remote changes could be applied outside the complete/buffered-complete discipline)" % (s.verb, s.body.id))
    R.require({F.root_fn(s.body).id for s in sites} == allowed, "both-writers", "", "both registered writers exist", fail_msg="crsql_changes writers found: %s" % sorted({F.root_fn(s.body).id for s in sites}))


# ------------------------------------------------------------------------------------------------ complete
def complete(ctx):
    F, G = ctx.F, ctx.G
    R = ctx.rule("C03.complete", "K2+K9", "process_single_version applies a changeset directly only if Changeset::is_complete() is true; otherwise it is only buffered")
    cands = [b for b in F.family(F.get(PSV))] if F.get(PSV) else []
    b = next((x for x in cands if any((c.t.get("r") or c.f) == PCV for c in x.calls)), None)
    if not R.anchor(b, "process_single_version", "body of process_single_version calling process_complete_version"):
        return
    ic = [c for c in b.calls if c.f.endswith("broadcast::Changeset::is_complete")]
    pcv = [c for c in b.calls if (c.t.get("r") or c.f) == PCV]
    piv = [c for c in b.calls if (c.t.get("r") or c.f) == PIV]
    if not (R.require(len(ic) == 1, "is_complete", b.where(), "one is_complete() decision", fail_msg="expected one is_complete() call, found %d" % len(ic))
            and R.anchor(pcv, "pcv", "process_complete_version call") and R.anchor(piv, "piv", "process_incomplete_version call")):
        return
    tt = flow.effect_truth_table(b, [ic[0].bb], cm.blocks_of_calls(pcv))
    R.require(tt[(True,)] and not tt[(False,)], "apply-iff-complete", pcv[0].where(), "process_complete_version is reached iff is_complete() (%s)" % tt,
              fail_msg="process_complete_version reachability by is_complete() outcome is %s: an incomplete chunk could be applied to the replicated tables" % tt)
    tt2 = flow.effect_truth_table(b, [ic[0].bb], cm.blocks_of_calls(piv))
    R.require(tt2[(False,)] and not tt2[(True,)], "buffer-iff-incomplete", piv[0].where(), "process_incomplete_version is reached iff !is_complete() (%s)" % tt2,
              fail_msg="process_incomplete_version reachability by is_complete() outcome is %s" % tt2)
    # is_complete is asked of the changeset that is then processed
    # the incomplete path writes only buffer tables
    D = G.reachable_bodies([F.get(PIV)], kinds=("call", "closure_sync"))
    w = set()
    for s in sqlinv.inventory(F):
        if s.body.id in {x.id for x in D}:
            w |= s.writes
    R.require(w <= {"__corro_buffered_changes", "__corro_seq_bookkeeping"} and w, "incomplete-writes", "", "the incomplete path writes only %s" % sorted(w),
              fail_msg="process_incomplete_version writes %s" % sorted(w))


# ------------------------------------------------------------------------------------------------ isc
def isc(ctx):
    F = ctx.F
    R = ctx.rule("C03.isc", "K9", "Changeset::is_complete(Full) is true exactly when seqs.start == CrsqlSeq(0) and seqs.end == last_seq")
    b = F.get("klukai_types::broadcast::Changeset::is_complete")
    if not R.anchor(b, "is_complete", "fn Changeset::is_complete"):
        return
    eqs = [c for c in b.calls if c.f in ("core::cmp::PartialEq::eq", "core::cmp::PartialEq::ne") and "CrsqlSeq" in c.self_ty]
    if not R.require(len(eqs) == 2, "two-equalities", b.where(), "two CrsqlSeq equalities", fail_msg="expected 2 CrsqlSeq equalities in is_complete, found %d" % len(eqs)):
        return
    # the Full arm: blocks reachable from the discriminant switch's Full edge
    atoms = [c.bb for c in eqs]
    # restrict to the Full arm: start evaluation at the first equality (both live in that arm only)
    first = eqs[0] if b.dominates(eqs[0].bb, eqs[1].bb) else eqs[1]
    res = {}
    for vals in itertools.product((False, True), repeat=2):
        av = {}
        for c, v in zip(eqs, vals):
            av[c.bb] = v if c.name() == "eq" else (not v)
        _, rets = flow.eval_guard(b, av, start=first.bb)
        res[vals] = rets
    ok = res[(True, True)] == {True} and all(res[v] == {False} for v in res if v != (True, True))
    R.require(ok, "truth-table", first.where(), "returns true iff both equalities hold (%s)" % {k: sorted(map(str, v)) for k, v in res.items()},
              fail_msg="is_complete(Full) truth table over (start==0, end==last_seq) is %s; must be true only for (True, True)" % {k: sorted(map(str, v)) for k, v in res.items()})
    # operands: one equality against constant 0 on seqs.start(), the other seqs.end() vs last_seq
    sigs = []
    for c in eqs:
        stop = lambda call: call.name() in ("start", "end")
        o = set()
        for ai in (0, 1):
            pl = op_place(c.args[ai])
            if pl is not None:
                o |= flow.origins(b, pl, at=(c.bb, "T"), stop=stop)
        consts = {x.const.get("v") for x in o if x.kind == "const" and x.const and "v" in x.const}
        names = {x.call.name() for x in o if x.kind == "call"} | {f for x in o for f in x.field_names()}
        prom = set()
        for x in o:
            if x.kind == "const" and x.const and "promoted" in x.const and x.const["promoted"] < len(b.promoted):
                prom |= {k.get("v") for k in b.promoted[x.const["promoted"]] if "v" in k}
        sigs.append((consts | prom, names))
    has_start0 = any((0 in c) and ("start" in n) for c, n in sigs)
    has_end_last = any(("end" in n) and ("last_seq" in n) for c, n in sigs)
    R.require(has_start0 and has_end_last, "operands", b.where(), "compares seqs.start() with CrsqlSeq(0) and seqs.end() with last_seq",
              fail_msg="is_complete compares %s" % sigs)


# ------------------------------------------------------------------------------------------------ apply
def _gap_count_switch(b, before_call):
    """switches on `gaps(..).count() <op> k` that dominate `before_call`; returns list of (sw, op, k, t_true, t_false, lhs, count_call)"""
    out = []
    for c in b.calls:
        if c.name() != "count":
            continue
        org = cm.operand_origins(b, c, 0)
        if not any(o.kind == "call" and o.call.name() == "gaps" for o in org):
            continue
        for sw in flow.int_compare_switches(b, c.dest[0]):
            if b.dominates(sw[0], before_call.bb):
                out.append(sw + (c,))
    return out


def _edge_means_zero(sw):
    """which successor is taken when the count is 0"""
    bb, op, k, tt, ft, lhs = sw[:6]
    return tt if flow.int_relation_holds(op, k, lhs, 0) else ft


def _edge_means_positive(sw):
    bb, op, k, tt, ft, lhs = sw[:6]
    return {tt if flow.int_relation_holds(op, k, lhs, v) else ft for v in (1, 2, 7)}


def apply_(ctx):
    F = ctx.F
    R = ctx.rule("C03.apply", "K2", "process_fully_buffered_changes begins its transaction only when the buffered sequence set has zero gaps over the full range; one crsql_changes DML")
    fam = F.family(F.get(PFB)) if F.get(PFB) else []
    b = next((x for x in fam if tx.tx_begins(x)), None)
    if not R.anchor(b, "closure", "blocking closure of process_fully_buffered_changes with the transaction"):
        return
    begin = tx.tx_begins(b)[0]
    sws = _gap_count_switch(b, begin)
    if not R.anchor(sws, "gap-check", "switch on seqs.gaps(..).count() dominating the transaction begin"):
        return
    sw = sws[0]
    zero_t = _edge_means_zero(sw)
    pos_ts = _edge_means_positive(sw)
    R.require(begin.bb in b.reachable(zero_t, no_nodes=(sw[0],)) and all(begin.bb not in b.reachable(p, no_nodes=(sw[0],)) for p in pos_ts), "begin-iff-no-gaps", begin.where(),
              "the transaction (and the INSERT..SELECT) is reached only on the `count == 0` edge",
              fail_msg="process_fully_buffered_changes can begin applying although the buffered sequences still have gaps (gap-count check weakened: op=%s const=%s)" % (sw[1], sw[2]))
    # the gaps argument is the full range (base checked by C02.seqbase) built from the partial's last_seq
    gcall = [o.call for o in cm.operand_origins(b, sw[6], 0) if o.kind == "call" and o.call.name() == "gaps"]
    if R.anchor(gcall, "gaps-call", "seqs.gaps(&range)"):
        rorg = flow.origins(b, op_place(gcall[0].args[1]), at=(gcall[0].bb, "T"), stop=lambda call: call.name() == "new")
        ok = any(o.kind == "call" and o.call.f == "core::ops::range::RangeInclusive::<Idx>::new" for o in rorg)
        R.require(ok, "gaps-over-range", gcall[0].where(), "gaps are computed over an explicit `lo..=last_seq` range")
    # a missing partial returns before the transaction
    inv = [s for s in sqlinv.inventory(F, [b]) if "crsql_changes" in s.writes]
    R.require(len(inv) == 1 and inv[0].verb == "INSERT" and "__corro_buffered_changes" in inv[0].reads, "one-insert-select", inv[0].call.where() if inv else b.where(),
              "exactly one INSERT INTO crsql_changes .. SELECT .. FROM __corro_buffered_changes",
              fail_msg="expected one INSERT..SELECT from __corro_buffered_changes into crsql_changes, found %s" % [(s.verb, sorted(s.reads)) for s in inv])
    if inv:
        R.require(inv[0].recv == {"tx:%s:%d" % (b.id, begin.bb)}, "insert-on-tx", inv[0].call.where(), "the INSERT..SELECT runs on the transaction begun here",
                  fail_msg="the INSERT..SELECT runs on %s" % sorted(inv[0].recv))


# ------------------------------------------------------------------------------------------------ trigger
def trigger(ctx):
    F = ctx.F
    R = ctx.rule("C03.trigger", "K2+K9", "a buffered version is scheduled for application (tx_apply) only when its received sequences have zero gaps")
    sends = [c for c in F.all_calls() if re.search(r"CorroSender::<T>::(send|try_send|blocking_send)$", c.f) and "(klukai_types::actor::ActorId, klukai_types::base::CrsqlDbVersion)" in c.self_ty
             and "RangeInclusive" not in c.self_ty]
    if not R.floor(len(sends), 2, "tx_apply-sends", "senders on the (ActorId, CrsqlDbVersion) apply channel"):
        return
    for c in sends:
        b = c.body
        # the body deciding: the send may sit in a spawned async block; the gap check is in the parent
        decide, site = b, c
        hops = 0
        ok = False
        why = "no gap-count check found"
        while decide is not None and hops < 3:
            sws = _gap_count_switch(decide, site)
            if sws:
                sw = sws[0]
                zero_t = _edge_means_zero(sw)
                pos_ts = _edge_means_positive(sw)
                ok = site.bb in decide.reachable(zero_t, no_nodes=(sw[0],)) and all(site.bb not in decide.reachable(p, no_nodes=(sw[0],)) for p in pos_ts)
                why = "gaps().count() %s %s" % (sw[1], sw[2])
                break
            # go to the parent at the site creating this closure/coroutine
            par = F.get(decide.parent) if decide.parent else None
            if par is None:
                break
            created = None
            for bb, bl in enumerate(par.blocks):
                for s in bl["s"]:
                    if s[0] == "A" and s[2][0] == "agg" and isinstance(s[2][1], dict) and (s[2][1].get("coroutine") == decide.id or s[2][1].get("closure") == decide.id):
                        created = bb
            if created is None:
                break
            class _S:  # site in the parent
                pass
            st = _S()
            st.bb = created
            decide, site, hops = par, st, hops + 1
        R.require(ok, "apply-iff-no-gaps@%s" % F.root_fn(b).id, c.where(), "tx_apply send is reached only on the zero-gaps edge (%s)" % why,
                  fail_msg="a version is scheduled for application in %s without (or on the wrong edge of) the zero-gaps check (%s)" % (b.id, why))


# ------------------------------------------------------------------------------------------------ merge (K5)
def _box_check(pred_sql, spec, R, inst, where, what):
    try:
        e = sqlmini.parse_bool(pred_sql)
    except sqlmini.ParseError as ex:
        R.fail(inst + ".parse", where, "cannot parse the SQL predicate (%s): obligation undischargeable" % ex)
        return
    free = sqlmini.names(e)
    bad = []
    n = 0
    N = 8
    for s in range(N):
        for en in range(s, N):
            for a in range(N):
                for b_ in range(a, N):
                    env = {"start_seq": s, "end_seq": en, ":start": a, ":end": b_, "site_id": 1, ":actor_id": 1, "db_version": 3, ":db_version": 3}
                    try:
                        got = sqlmini.ev(e, env)
                    except sqlmini.ParseError as ex:
                        R.fail(inst + ".eval", where, "cannot evaluate the SQL predicate (%s)" % ex)
                        return
                    n += 1
                    if bool(got) != spec(s, en, a, b_):
                        bad.append((s, en, a, b_, got))
    R.require(not bad, inst, where, "%s on all %d tuples of the box 0..%d" % (what, n, N - 1),
              fail_msg="SQL predicate differs from `%s` e.g. stored [%d,%d] vs incoming [%d,%d] -> %s (%d of %d tuples differ)" % ((what,) + tuple(bad[0]) + (len(bad), n)) if bad else "")


def merge(ctx):
    F = ctx.F
    R = ctx.rule("C03.merge", "K5", "the seq-range merge DELETE selects exactly the stored ranges that overlap or are adjacent to the incoming one; the serve-side SELECT exactly the overlapping ones")
    inv = sqlinv.inventory(F)
    dels = [s for s in inv if s.verb == "DELETE" and "__corro_seq_bookkeeping" in s.writes and F.root_fn(s.body).id == PIV]
    if R.require(len(dels) == 1, "merge-delete", "", "one merge DELETE in process_incomplete_version", fail_msg="expected one DELETE on __corro_seq_bookkeeping in process_incomplete_version, found %d" % len(dels)):
        s = dels[0]
        try:
            w = sqlmini.where_clause(s.sql)
            _box_check(w, lambda st, en, a, b: st <= b + 1 and en >= a - 1, R, "merge.overlap-or-adjacent", s.call.where(), "equivalent to `start_seq <= :end+1 AND end_seq >= :start-1`")
        except sqlmini.ParseError as ex:
            R.fail("merge.where", s.call.where(), "cannot isolate WHERE clause: %s" % ex)
        R.require("returning" in s.sql.lower() and re.search(r"returning\s+start_seq\s*,\s*end_seq", s.sql, re.I), "merge.returning", s.call.where(), "the DELETE returns (start_seq, end_seq) of what it removed")
    sels = [s for s in inv if s.verb == "SELECT" and "__corro_seq_bookkeeping" in s.reads and F.root_fn(s.body).id == "klukai_agent::api::peer::handle_need" and ":start" in s.sql]
    if R.require(len(sels) == 1, "serve-select", "", "one range-filtered SELECT on __corro_seq_bookkeeping in handle_need", fail_msg="expected one range-filtered seq-bookkeeping SELECT in handle_need, found %d" % len(sels)):
        s = sels[0]
        try:
            w = sqlmini.where_clause(s.sql)
            _box_check(w, lambda st, en, a, b: st <= b and en >= a, R, "serve.overlap", s.call.where(), "equivalent to `start_seq <= :end AND end_seq >= :start`")
        except sqlmini.ParseError as ex:
            R.fail("serve.where", s.call.where(), "cannot isolate WHERE clause: %s" % ex)


# ------------------------------------------------------------------------------------------------ failsafe
def failsafe(ctx):
    F = ctx.F
    R = ctx.rule("C03.failsafe", "K2", "process_incomplete_version stores the merged seq range only when exactly one contiguous range results")
    fam = F.family(F.get(PIV)) if F.get(PIV) else []
    b = next((x for x in fam if any("__corro_seq_bookkeeping" in s.writes and s.verb == "INSERT" for s in sqlinv.inventory(F, [x]))), None)
    if not R.anchor(b, "body", "body of process_incomplete_version with the seq-range INSERT"):
        return
    ins = [s for s in sqlinv.inventory(F, [b]) if "__corro_seq_bookkeeping" in s.writes and s.verb == "INSERT"][0]
    lens = [c for c in b.calls if c.name() == "len" and "RangeInclusiveSet" in c.self_ty]
    hit = None
    for c in lens:
        for sw in flow.int_compare_switches(b, c.dest[0]):
            if b.dominates(sw[0], ins.call.bb):
                hit = sw
    if not R.anchor(hit, "len-check", "switch on new_ranges.len() dominating the INSERT"):
        return
    bb, op, k, tt, ft, lhs = hit
    one_t = tt if flow.int_relation_holds(op, k, lhs, 1) else ft
    many = {tt if flow.int_relation_holds(op, k, lhs, v) else ft for v in (2, 3, 9)}
    R.require(ins.call.bb in b.reachable(one_t, no_nodes=(bb,)) and all(ins.call.bb not in b.reachable(m, no_nodes=(bb,)) for m in many), "insert-iff-single-range", ins.call.where(),
              "the INSERT is reached for len()==1 and not for len()>1",
              fail_msg="the merged seq-range INSERT is reachable when the merge produced more than one range (failsafe removed)")


# ------------------------------------------------------------------------------------------------ cols
def cols(ctx):
    F = ctx.F
    R = ctx.rule("C03.cols", "K6", "column lists of the buffered INSERT, the INSERT..SELECT and the crsql_changes INSERT agree with each other and with the bound Change fields")
    inv = sqlinv.inventory(F)
    buf = [s for s in inv if s.verb == "INSERT" and "__corro_buffered_changes" in s.writes]
    isel = [s for s in inv if s.verb == "INSERT" and "crsql_changes" in s.writes and "__corro_buffered_changes" in s.reads]
    direct = [s for s in inv if s.verb == "INSERT" and "crsql_changes" in s.writes and "__corro_buffered_changes" not in s.reads]
    if not (R.require(len(buf) == 1, "buffered-insert", "", "one INSERT INTO __corro_buffered_changes") and R.require(len(isel) == 1, "insert-select", "", "one INSERT..SELECT")
            and R.require(len(direct) == 1, "direct-insert", "", "one direct INSERT INTO crsql_changes")):
        return
    try:
        bc = sqlmini.insert_columns(buf[0].sql)
        bv = sqlmini.insert_values(buf[0].sql)
        R.require(bc == CHANGE_COLS, "buffered.columns", buf[0].call.where(), "buffered INSERT columns = %s" % bc, fail_msg="buffered INSERT columns %s != %s" % (bc, CHANGE_COLS))
        R.require([v.lstrip(":") for v in bv] == bc, "buffered.values", buf[0].call.where(), "VALUES bind :<column> for each column in order",
                  fail_msg="buffered INSERT binds %s to columns %s: a value lands in the wrong column" % (bv, bc))
        ic = sqlmini.insert_columns(isel[0].sql)
        sc = sqlmini.select_columns(isel[0].sql[isel[0].sql.upper().index("SELECT"):])
        R.require(ic == sc == CHANGE_COLS, "insert-select.columns", isel[0].call.where(), "INSERT (..) and SELECT .. lists are identical",
                  fail_msg="INSERT..SELECT column lists differ: %s vs %s" % (ic, sc))
        dc = sqlmini.insert_columns(direct[0].sql)
        R.require(dc == CHANGE_COLS, "direct.columns", direct[0].call.where(), "crsql_changes INSERT columns = canonical order", fail_msg="crsql_changes INSERT columns %s" % dc)
    except sqlmini.ParseError as ex:
        R.fail("parse", "", "cannot parse a column list: %s" % ex)
        return
    # named params of the buffered insert: (":name", value) tuples: value's field must be `name`
    b = buf[0].body
    n = 0
    for bb in sorted(b.live_blocks()):
        for i, s in enumerate(b.blocks[bb]["s"]):
            if s[0] == "A" and s[2][0] == "agg" and s[2][1] == "tuple" and len(s[2][2]) == 2:
                k = op_const(s[2][2][0])
                name = None
                if k is not None and k.get("s", "").startswith(":"):
                    name = k["s"][1:]
                elif op_place(s[2][2][0]) is not None:
                    for o in flow.origins(b, op_place(s[2][2][0]), at=(bb, i)):
                        if o.kind == "const" and o.const and o.const.get("s", "").startswith(":"):
                            name = o.const["s"][1:]
                if name is None or name not in CHANGE_COLS:
                    continue
                if not b.in_loop_with(bb, buf[0].call.bb):
                    continue
                p = op_place(s[2][2][1])
                org = flow.origins(b, p, at=(bb, i)) if p is not None else set()
                fields = cm.deep_names(b, p, (bb, i))[0] if p is not None else set()
                n += 1
                want = name
                R.require(want in fields, "buffered.param:%s" % name, "%s:%d" % (b.file, s[3]), ":%s is bound to the change's `%s` field" % (name, want),
                          fail_msg=":%s is bound to %s" % (name, sorted(fields) or cm.origin_summary(org)))
    R.floor(n, 10, "buffered.params", "named parameters of the buffered INSERT")
    # positional params of the direct insert: array of &dyn ToSql in column order
    b = direct[0].body
    arrays = []
    for bb in sorted(b.live_blocks()):
        for i, s in enumerate(b.blocks[bb]["s"]):
            if s[0] == "A" and s[2][0] == "agg" and s[2][1] == "array" and len(s[2][2]) == len(CHANGE_COLS) and "ToSql" in b.ty(s[1][0]):
                arrays.append((bb, i, s))
    if R.require(len(arrays) == 1, "direct.params-array", b.where(), "one 10-element params![] array", fail_msg="expected one 10-element ToSql array in process_complete_version, found %d" % len(arrays)):
        bb, i, s = arrays[0]
        got = []
        for op in s[2][2]:
            p = op_place(op)
            got.append(sorted((cm.deep_names(b, p, (bb, i))[0] if p is not None else set()) & set(CHANGE_COLS)))
        ok = all(col in g for col, g in zip(CHANGE_COLS, got))
        R.require(ok, "direct.param-order", "%s:%d" % (b.file, s[3]), "positional parameters follow the column order", fail_msg="crsql_changes positional params bind fields %s to columns %s" % (got, CHANGE_COLS))


# ------------------------------------------------------------------------------------------------ cleared fast path
def cleared(ctx, rid="C03.cleared"):
    """a chunk may be booked as `Cleared` (whole version known, nothing to apply) only if it is COMPLETE and empty: an empty chunk that
    covers only part of 0..=last_seq is seq coverage of a partial version and must go through process_single_version"""
    F = ctx.F
    R = ctx.rule(rid, "K2+K9", "process_multiple_changes books a received changeset as Cleared without applying it only when it is both complete and empty")
    fam = F.family(F.get(PMC)) if F.get(PMC) else []
    b = next((x for x in fam if any((c.t.get("r") or c.f) == PSV for c in x.calls)), None)
    if not R.anchor(b, "closure", "closure of process_multiple_changes calling process_single_version"):
        return
    cl = cm.agg_blocks(b, "klukai_types::agent::KnownDbVersion", "Cleared")
    pev = [c for c in b.calls if (c.t.get("r") or c.f) == UTIL + "process_empty_version"]
    ic = [c for c in b.calls if c.name() == "is_complete" and re.search(r"broadcast::(ChangeV1|Changeset)", c.f)]
    ie = [c for c in b.calls if c.name() == "is_empty" and re.search(r"broadcast::(ChangeV1|Changeset)", c.f)]
    psv = [c for c in b.calls if (c.t.get("r") or c.f) == PSV]
    if not R.anchor(cl, "Cleared", "KnownDbVersion::Cleared construction"):
        return
    if not ic or not ie:
        R.fail("cleared-iff-complete-and-empty", b.where(cl[0]), "the Cleared fast path (book the whole version as known without applying anything) is no longer guarded by %s: "
               "an empty chunk covering only part of 0..=last_seq would mark the version as fully known" % ("is_complete()" if not ic else "is_empty()"))
        return
    c1 = [c for c in ic if any(b.can_reach(c.bb, x) for x in cl)][0]
    c2 = [c for c in ie if any(b.can_reach(c.bb, x) for x in cl)][0]
    import itertools
    table = {}
    eff = cl + [c.bb for c in pev]
    for v1, v2 in itertools.product((False, True), repeat=2):
        first = c1 if b.dominates(c1.bb, c2.bb) else c2
        reach, _ = flow.eval_guard(b, {c1.bb: v1, c2.bb: v2}, start=first.bb, no_nodes={p.bb for p in psv})
        table[(v1, v2)] = any(x in reach for x in cl)
    want = {(True, True): True, (True, False): False, (False, True): False, (False, False): False}
    R.require(table == want, "cleared-iff-complete-and-empty", b.where(cl[0]), "Cleared fast path by (is_complete, is_empty): %s" % table,
              fail_msg="the Cleared fast path is taken under (is_complete, is_empty) = %s: an empty chunk covering only part of a version would mark the whole version as known and its other chunks are dropped / never applied"
                       % [k for k, v in table.items() if v and not want[k]])
    # per change: every path from taking the next change to the fast path evaluates is_complete
    nx = [c for c in b.calls if c.name() == "next" and "ChangeV1" in c.self_ty + c.t.get("dty", "") + c.fi and b.dominates(c.bb, c1.bb) and b.in_loop_with(c.bb, c1.bb)]
    if R.anchor(nx, "change-loop", "iteration over the changes of an actor"):
        tgt = b.term(nx[-1].bb).get("tgt")
        skip = [x for x in cl if x in b.reachable(tgt, no_nodes=(c1.bb, nx[-1].bb))]
        R.require(not skip, "complete-checked-per-change", b.where(cl[0]), "every path from a change to the Cleared fast path asks is_complete()",
                  fail_msg="some path to the Cleared fast path does not evaluate is_complete() for that change")


# ------------------------------------------------------------------------------------------------ clear buffered copies
def clear_buf(ctx):
    F = ctx.F
    R = ctx.rule("C03.clear", "K2", "when a version is applied (directly or from the buffer) removal of its buffered copies is scheduled (tx_clear_buf) on the success path")
    fam = F.family(F.get(PFB)) if F.get(PFB) else []
    b = next((x for x in fam if tx.tx_begins(x)), None)
    if R.anchor(b, "apply-closure", "transaction closure of process_fully_buffered_changes"):
        ts = [c for c in b.calls if c.name() == "try_send" and "RangeInclusive<klukai_types::base::CrsqlDbVersion>" in c.self_ty]
        cs = tx.commits(b)
        R.require(bool(ts) and bool(cs) and b.can_reach(ts[0].bb, cs[0].bb), "buffered-apply", ts[0].where() if ts else b.where(), "applying a buffered version schedules clearing of its buffered rows before committing",
                  fail_msg="process_fully_buffered_changes no longer schedules removal of the applied version's buffered rows: they (and their seq bookkeeping) stay forever")
        if ts:
            arg = cm.deep_arg_fields(b, op_place(ts[0].args[1]), (ts[0].bb, "T"), nargs=2)
    fam2 = F.family(F.get(PSV)) if F.get(PSV) else []
    b2 = next((x for x in fam2 if any((c.t.get("r") or c.f) == PCV for c in x.calls)), None)
    if R.anchor(b2, "single-version", "process_single_version body"):
        ts = [c for c in b2.calls if c.name() == "try_send" and "RangeInclusive<klukai_types::base::CrsqlDbVersion>" in c.self_ty]
        chk = [c for c in b2.calls if (c.t.get("r") or c.f) == UTIL + "check_buffered_meta_to_clear"]
        pcv = [c for c in b2.calls if (c.t.get("r") or c.f) == PCV]
        R.require(bool(ts) and bool(chk) and bool(pcv) and b2.dominates(pcv[0].bb, chk[0].bb) and b2.can_reach(chk[0].bb, ts[0].bb), "complete-apply", chk[0].where() if chk else b2.where(),
                  "after applying a complete version, leftover buffered rows of it are detected and their removal scheduled",
                  fail_msg="process_single_version no longer clears buffered leftovers of a version that arrived complete")
    # the consumer deletes both buffered rows and seq bookkeeping in one transaction
    lp = F.family(F.get(UTIL + "clear_buffered_meta_loop")) if F.get(UTIL + "clear_buffered_meta_loop") else []
    w = set()
    for s in sqlinv.inventory(F, lp):
        if s.verb == "DELETE":
            w |= s.writes
    R.require({"__corro_buffered_changes", "__corro_seq_bookkeeping"} <= w, "consumer-deletes-both", "", "clear_buffered_meta_loop deletes buffered rows and seq bookkeeping",
              fail_msg="clear_buffered_meta_loop deletes only %s" % sorted(w))


def reload_(ctx):
    """After a restart `partial.seqs` is rebuilt from __corro_seq_bookkeeping and decides (C03.trigger, run_root) whether a
    buffered version is applied.  It must be rebuilt from exactly the stored ranges: one stored row -> one range."""
    from . import C06
    F = ctx.F
    R = ctx.rule("C03.reload", "K6+K4", "at restart the received sequence ranges of a partial version are reloaded row by row, each row giving the range start_seq..=end_seq")
    b = F.get("klukai_types::agent::BookedVersions::from_conn")
    if not R.anchor(b, "from_conn", "fn BookedVersions::from_conn"):
        return
    sites = [s for s in sqlinv.inventory(F, [b]) if s.verb == "SELECT" and "__corro_seq_bookkeeping" in s.reads]
    if not R.anchor(sites, "seq-select", "SELECT .. FROM __corro_seq_bookkeeping in from_conn"):
        return
    C06.raw_rows(F, R, b, sites, only={"__corro_seq_bookkeeping"})
    try:
        cols = sqlmini.select_columns(sites[0].sql)
    except sqlmini.ParseError:
        cols = []
    # the range handed to insert_partial is RangeInclusive::new(row.get(i), row.get(j)) with i/j the positions of start_seq/end_seq
    ip = [c for c in b.calls if c.f.endswith("BookedVersions::insert_partial")]
    rn = [c for c in b.calls if c.f == "core::ops::range::RangeInclusive::<Idx>::new" and "CrsqlSeq" in c.self_ty]
    if R.anchor(ip, "insert_partial", "bv.insert_partial(..) in from_conn") and R.anchor(rn, "seq-range", "start_seq..=end_seq construction") and cols:
        c = rn[0]
        idx = []
        for a in c.args[:2]:
            got = None
            for o in flow.origins(b, op_place(a), at=(c.bb, "T"), stop=lambda cc: cc.name() == "get") if op_place(a) is not None else ():
                if o.kind == "call" and o.call.name() == "get" and len(o.call.args) > 1:
                    k = op_const(o.call.args[1])
                    if k is not None and "v" in k:
                        got = k["v"]
            idx.append(got)
        want = [cols.index("start_seq") if "start_seq" in cols else None, cols.index("end_seq") if "end_seq" in cols else None]
        R.require(idx == want and None not in want, "range-from-row", c.where(), "the reloaded range is row[%s]..=row[%s] = start_seq..=end_seq" % tuple(idx),
                  fail_msg="the reloaded range is built from row columns %s, but start_seq/end_seq are columns %s of the SELECT (%s)" % (idx, want, ", ".join(cols)))
