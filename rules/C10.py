"""C10 — load shedding and duplicate suppression never lose a change for good (structural clauses).

Decides: the seen-cache eviction on queue overflow is keyed by the *dropped* element; the receive/drop/suppress
path issues no SQL and takes no bookkeeping write lock; every edge that skips enqueueing is guarded by one of the
enumerated reasons; cost accounting pairs dropped/pushed elements; the in-batch dedupe key is (actor, versions, seqs).
"""
import re

from corrolint import flow
from corrolint.facts import op_place, op_const, op_local
from . import common as cm
from . import sqlinv

HANDLE = "klukai_agent::agent::handlers::handle_changes"
PMC = "klukai_agent::agent::util::process_multiple_changes"


def run(ctx):
    ctx.trust("indexmap / VecDeque / rangemap semantics")
    ctx.assume("liveness ('applied after finitely many offers once overload ends'), cache trimming effects and timing are not decided")
    evict(ctx)
    nobook(ctx)
    reasons(ctx)
    cost(ctx)
    batchkey(ctx)
    batchall(ctx)
    known(ctx)
    # an empty chunk covering part of a version must not book the whole version as known: re-offered sibling chunks would be
    # suppressed as already-seen for good (added after C10-c; same structural fact as C03.cleared)
    from . import C03
    C03.cleared(ctx, rid="C10.cleared")


def _derives_from_call(b, place, at, target_bbs, hops=6):
    """all leaf origins of place are calls in target_bbs, or calls whose receiver (arg0) derives from them"""
    org = flow.origins(b, place, at=at)
    if not org:
        return False, ["<none>"]
    bad = []
    for o in org:
        if o.kind == "call":
            if o.call.bb in target_bbs:
                continue
            if hops > 0 and o.call.args and op_place(o.call.args[0]) is not None:
                ok, why = _derives_from_call(b, op_place(o.call.args[0]), (o.call.bb, "T"), target_bbs, hops - 1)
                if ok:
                    continue
                bad += why
                continue
        bad.append(cm.origin_summary([o])[0])
    return (not bad), sorted(set(bad))


# ------------------------------------------------------------------------------------------------ evict
def evict(ctx, body=None, R=None):
    F = ctx.F
    R = R or ctx.rule("C10.evict", "K4", "on queue overflow the seen-cache entries removed are those of the element popped from the queue (actor, versions and seqs all derive from it)")
    b = body or cm.main_coroutine(F, HANDLE)
    if not R.anchor(b, "handle_changes", "async fn handle_changes"):
        return
    pops = [c for c in b.calls if c.f.endswith("VecDeque::<T, A>::pop_front")]
    entries = [c for c in b.calls if re.search(r"IndexMap::<K, V, S>::(entry|swap_remove|shift_remove|remove|get_mut|swap_remove_entry)$", c.f)]
    region_pop = None
    evicting = []
    for p in pops:
        ve = flow.variant_edges(b, p.dest)
        some_edges = [(sw, m.get(1, other)) for sw, m, other in ve]
        if not some_edges:
            continue
        inside = [e for e in entries if b.edges_dominate(some_edges, e.bb)]
        if inside:
            region_pop, evicting = p, inside
    if not R.anchor(region_pop, "overflow-pop", "queue.pop_front() whose Some arm touches the seen cache"):
        return
    p = region_pop
    for e in evicting:
        key = op_place(e.args[1]) if len(e.args) > 1 else None
        if key is None:
            R.fail("evict-key#%d" % evicting.index(e), e.where(), "eviction key is a constant")
            continue
        # tuple (actor, version)
        for idx, what in ((0, "actor"), (1, "version")):
            ok, why = _derives_from_call(b, key + [["f", idx, ""]], (e.bb, "T"), {p.bb})
            R.require(ok, "evict-key.%s#%d" % (what, evicting.index(e)), e.where(), "the %s component of the evicted seen-cache key derives from the popped (dropped) element" % what,
                      fail_msg="on overflow the seen-cache key's %s component does not come from the dropped element but from %s: the dropped change stays marked as seen and is suppressed when re-offered" % (what, why))
    # seq ranges removed derive from the popped element
    rems = [c for c in b.calls if c.f.endswith("RangeInclusiveSet::<T>::remove") or re.search(r"RangeInclusiveSet::<T.*>::remove$", c.f)]
    ve = flow.variant_edges(b, p.dest)
    some_edges = [(sw, m.get(1, other)) for sw, m, other in ve]
    rems = [c for c in rems if b.edges_dominate(some_edges, c.bb)]
    for c in rems:
        ok, why = _derives_from_call(b, op_place(c.args[1]), (c.bb, "T"), {p.bb})
        R.require(ok, "evict-seqs#%d" % rems.index(c), c.where(), "the seq range removed from the cache derives from the dropped element",
                  fail_msg="the seq range removed on overflow comes from %s, not from the dropped element" % why)
    R.floor(len(evicting), 1, "evict-sites", "seen-cache mutations in the overflow arm")


# ------------------------------------------------------------------------------------------------ nobook
def nobook(ctx):
    F, G = ctx.F, ctx.G
    R = ctx.rule("C10.nobook", "K1", "the receive/drop/suppress path (handle_changes and what it runs inline) issues no SQL and takes no bookkeeping write lock")
    b = cm.main_coroutine(F, HANDLE)
    if not R.anchor(b, "handle_changes", "async fn handle_changes"):
        return
    D = G.reachable_bodies([b], kinds=("call", "poll", "closure_sync"))
    ids = {x.id for x in D}
    sites = [s for s in sqlinv.inventory(F) if s.body.id in ids]
    R.require(not sites, "no-sql", sites[0].call.where() if sites else b.where(), "no SQL execution site among the %d bodies run inline by handle_changes" % len(D),
              fail_msg="handle_changes' inline path executes SQL (%s in %s): dropping/suppressing could touch bookkeeping" % ((sites[0].verb, sites[0].body.id) if sites else ("", "")))
    wlocks = []
    for x in D:
        for cls, mode, bb, c in G.direct_events(x):
            if cls in ("booked", "bookie", "conn") and mode == "w":
                wlocks.append((x, c, cls))
    R.require(not wlocks, "no-write-lock", wlocks[0][1].where() if wlocks else b.where(), "no bookie/booked write guard or write connection is acquired inline",
              fail_msg="handle_changes' inline path acquires %s(w) in %s" % ((wlocks[0][2], wlocks[0][0].id) if wlocks else ("", "")))
    # process_multiple_changes is handed to a spawner, not awaited inline
    spawned = [c for c, cb, kind in G.callees(b) if kind == "spawn" and PMC in cb.id]
    R.require(bool(spawned), "apply-is-spawned", b.where(), "process_multiple_changes runs as a spawned job (join_set.spawn)",
              fail_msg="process_multiple_changes is no longer spawned from handle_changes")


# ------------------------------------------------------------------------------------------------ reasons
ALLOWED_SKIP_GUARDS = [
    (re.compile(r"^core::cmp::PartialEq::(eq|ne)$"), re.compile(r"ActorId"), "own actor"),
    (re.compile(r"^core::iter::traits::iterator::Iterator::all$"), None, "all seqs / versions already seen"),
    (re.compile(r"^indexmap::map::IndexMap::<K, V, S>::(get|contains_key)$"), None, "seen-cache lookup"),
    (re.compile(r"BookedVersions::contains_all$"), None, "already known to bookkeeping"),
    (re.compile(r"^core::option::Option::<T>::cloned$|^std::collections::hash::map::HashMap::<K, V, S>::get$|^alloc::collections::btree::map::BTreeMap::<K, V, A>::get$"), None, "actor has bookkeeping"),
]


def reasons(ctx):
    F = ctx.F
    R = ctx.rule("C10.reasons", "K2+K9", "every branch that skips enqueueing a received change is guarded by an enumerated reason (own actor, seen-cache hit, known to bookkeeping)")
    b = cm.main_coroutine(F, HANDLE)
    if not R.anchor(b, "handle_changes", "async fn handle_changes"):
        return
    pbs = [c for c in b.calls if c.f.endswith("VecDeque::<T, A>::push_back")]
    a0s = [c for c in b.calls if c.f in ("core::cmp::PartialEq::eq", "core::cmp::PartialEq::ne") and "ActorId" in c.self_ty]
    if not (R.require(len(pbs) == 1, "push_back", b.where(), "one queue.push_back site", fail_msg="expected one queue.push_back, found %d" % len(pbs))
            and R.anchor(a0s, "own-actor-compare", "comparison of change.actor_id with the agent's own id")):
        return
    pb = pbs[0]
    a0 = [c for c in a0s if b.dominates(c.bb, pb.bb)]
    if not R.anchor(a0, "own-actor-dominates", "own-actor comparison dominating push_back"):
        return
    a0 = a0[0]
    skips = []
    for s in sorted(b.live_blocks()):
        t = b.term(s)
        if t["t"] != "sw" or not b.dominates(a0.bb, s) or s == a0.bb and False:
            continue
        if not b.can_reach(s, pb.bb, no_nodes=(a0.bb,)) and s != a0.bb:
            # after push_back or in a region that cannot reach it anyway
            if not b.can_reach(s, pb.bb):
                continue
        succs = b.succ[s]
        reach = [pb.bb in b.reachable(x, no_nodes=(a0.bb,)) or x == pb.bb for x in succs]
        if any(reach) and not all(reach):
            skips.append(s)
    if not R.floor(len(skips), 3, "skip-branches", "branches between receive and push_back with a skipping edge"):
        return
    for s in skips:
        t = b.term(s)
        l = op_local(t["d"])
        # what decides this branch: origins of the discriminant (through discriminant reads)
        deciding = _deciding_calls(b, s)
        why = None
        for c in deciding:
            for rx, self_rx, label in ALLOWED_SKIP_GUARDS:
                if rx.search(c.f) and (self_rx is None or self_rx.search(c.self_ty)):
                    why = label
        if t.get("line") and False:
            pass
        # panic / unreachable edges are not skips
        if all(b.term(x)["t"] in ("unreachable",) for x in b.succ[s] if pb.bb not in b.reachable(x, no_nodes=(a0.bb,))):
            continue
        R.require(why is not None, "skip@L%s:%s" % (_guard_sig(deciding), len([x for x in skips if x < s])), b.where(s),
                  "skip branch decided by %s (%s)" % ([c.name() for c in deciding], why),
                  fail_msg="a received change can be skipped (not enqueued) on a branch decided by %s, which is not an enumerated suppression reason" % ([c.fi or c.f for c in deciding] or "a non-call condition"))
    # the seen-cache insertion for the new change dominates push_back
    ins = [c for c in b.calls if re.search(r"indexmap::map::core::entry::Entry::<'\w+, K, V>::or_default$|IndexMap::<K, V, S>::insert$", c.f)]
    R.require(bool(ins), "seen-insert", b.where(), "the accepted change is recorded in the seen cache", fail_msg="accepted changes are no longer recorded in the seen cache")


def _guard_sig(calls):
    return "+".join(sorted({c.name() for c in calls})) or "cond"


def _deciding_calls(b, sw_bb):
    """calls whose results (transitively, through Use/Not/discriminant/field reads and transparent calls) decide the switch"""
    t = b.term(sw_bb)
    p = op_place(t["d"])
    if p is None:
        return []
    out = []
    seen = set()
    work = [(p, (sw_bb, "T"))]
    while work:
        pl, at = work.pop()
        for o in flow.origins(b, pl, at=at):
            if o.kind == "call" and o.call.bb not in seen:
                seen.add(o.call.bb)
                out.append(o.call)
    return out


# ------------------------------------------------------------------------------------------------ cost
def cost(ctx):
    F = ctx.F
    R = ctx.rule("C10.cost", "K7", "buf_cost is decreased by the dropped element's processing_cost and increased by the pushed element's")
    b = cm.main_coroutine(F, HANDLE)
    if not R.anchor(b, "handle_changes", "async fn handle_changes"):
        return
    pcs = [c for c in b.calls if c.f.endswith("Changeset::processing_cost") or c.f.endswith("ChangeV1::processing_cost")]
    pops = [c for c in b.calls if c.f.endswith("VecDeque::<T, A>::pop_front")]
    pbs = [c for c in b.calls if c.f.endswith("VecDeque::<T, A>::push_back")]
    if not (R.floor(len(pcs), 3, "processing_cost", "processing_cost call sites") and pbs):
        return
    pb = pbs[0]
    # which accumulator assignments use which cost
    subs, adds = [], []
    for bb in b.live_blocks():
        for i, s in enumerate(b.blocks[bb]["s"]):
            if s[0] == "A" and s[2][0] == "bin" and s[2][1] in ("Sub", "Add", "SubWithOverflow", "AddWithOverflow"):
                ops = s[2][2:4]
                for op in ops:
                    pl = op_place(op)
                    if pl is None:
                        continue
                    for o in flow.origins(b, pl, at=(bb, i)):
                        if o.kind == "call" and o.call in pcs or (o.kind == "call" and any(o.call.bb == x.bb for x in pcs)):
                            (subs if "Sub" in s[2][1] else adds).append((bb, o.call))
    # the overflow-arm subtraction uses the popped element's cost
    over = None
    for p in pops:
        ve = flow.variant_edges(b, p.dest)
        some_edges = [(sw, m.get(1, other)) for sw, m, other in ve]
        for bb, c in subs:
            if some_edges and b.edges_dominate(some_edges, bb) and b.dominates(bb, pb.bb) is False:
                ok, why = _derives_from_call(b, op_place(c.args[0]), (c.bb, "T"), {p.bb})
                if b.can_reach(bb, pb.bb):
                    over = (bb, c, ok, why)
    if R.anchor(over, "drop-sub", "buf_cost -= dropped.processing_cost() in the overflow arm"):
        R.require(over[2], "drop-cost-of-dropped", over[1].where(), "the cost subtracted on overflow is the dropped element's",
                  fail_msg="the cost subtracted on overflow is computed from %s, not from the dropped element (accounting drifts and can wedge the batcher)" % over[3])
    add_ok = [x for x in adds if b.dominates(pb.bb, x[0]) or b.dominates(x[1].bb, pb.bb)]
    R.require(bool(add_ok), "push-add", pb.where(), "buf_cost += cost of the pushed change", fail_msg="pushing a change no longer increases buf_cost by its processing cost")


# ------------------------------------------------------------------------------------------------ batchkey
def batchkey(ctx):
    F = ctx.F
    R = ctx.rule("C10.batchkey", "K4", "the in-batch dedupe key of process_multiple_changes is (actor_id, versions, seqs) of the change")
    cos = cm.coroutines_of(F, PMC)
    ins = [(b, c) for b in cos for c in b.calls if c.f.endswith("HashSet::<T, S>::insert") and "ActorId" in c.self_ty]
    if not R.require(len(ins) == 1, "seen.insert", "", "one dedupe-set insert", fail_msg="expected one HashSet insert keyed by ActorId in process_multiple_changes, found %d" % len(ins)):
        return
    b, c = ins[0]
    key = op_place(c.args[1])
    # key type mentions all three components
    R.require(all(x in c.self_ty for x in ("ActorId", "CrsqlDbVersion", "CrsqlSeq")), "key-type", c.where(), "key type = (ActorId, RangeInclusive<CrsqlDbVersion>, Option<RangeInclusive<CrsqlSeq>>)",
              fail_msg="the dedupe key type lost a component: %s" % c.self_ty)
    want = [(0, lambda o: o.kind != "const" and ("actor_id" in o.field_names() or (o.kind == "call" and "actor_id" in o.call.f)), "change.actor_id"),
            (1, lambda o: o.kind == "call" and o.call.name() == "versions", "change.versions()"),
            (2, lambda o: o.kind == "call" and o.call.name() in ("seqs", "cloned"), "change.seqs()")]
    for idx, pred, what in want:
        org = flow.origins(b, key + [["f", idx, ""]], at=(c.bb, "T")) if key is not None else set()
        R.require(bool(org) and all(pred(o) for o in org), "key.%d" % idx, c.where(), "key component %d is %s" % (idx, what),
                  fail_msg="dedupe key component %d is %s, expected %s: distinct chunks of one version would collapse in a batch" % (idx, cm.origin_summary(org), what))


# ------------------------------------------------------------------------------------------------ batchall
def batchall(ctx):
    """The in-batch duplicate test may skip a changeset only if *every* version of its range was already handled in this batch.
    A test on the range's endpoints (`seen.contains_key(versions.start()) && ..end()`) skips a cleared range whose inner versions
    were never handled; handle_changes has already put them in its seen cache, so every re-offer is swallowed too."""
    F = ctx.F
    R = ctx.rule("C10.batchall", "K4", "process_multiple_changes looks up the per-batch `seen` map once per version of the changeset's range (inside `versions.all(..)`), never by the range's endpoints")
    fam = F.family(F.get(PMC)) if F.get(PMC) else []
    looks = [(b, c) for b in fam for c in b.calls if c.name() in ("get", "contains_key", "get_key_value", "overlaps", "gaps", "overlapping")
             and re.search(r"RangeInclusiveMap<klukai_types::base::CrsqlDbVersion, core::option::Option<klukai_types::agent::PartialVersion>", c.self_ty)]
    if not R.floor(len(looks), 2, "seen-lookups", "lookups into the per-batch seen map"):
        return
    for n, (b, c) in enumerate(looks):
        ok, why = False, ""
        if c.name() not in ("get", "contains_key"):
            why = "range-level lookup %s" % c.name()
        elif b.kind != "closure" or b.parent is None:
            why = "the lookup is not inside a per-version closure"
        else:
            parent = F.get(b.parent)
            passed, created = ctx.G.closure_operands(parent)
            via = [call for call, cid, i in passed if cid == b.id]
            per_version = [call for call in via if call.name() in ("all", "any", "try_for_each", "for_each", "filter", "find", "position") and "CrsqlDbVersion" in call.self_ty]
            org = flow.origins(b, op_place(c.args[1]), at=(c.bb, "T"), stop=lambda cc: cc.name() in ("start", "end")) if op_place(c.args[1]) is not None else set()
            key_is_item = bool(org) and all(o.kind == "arg" and o.local == 2 for o in org)
            ok = bool(per_version) and key_is_item
            if not per_version:
                why = "the closure is not the predicate of an iteration over the version range (%s)" % sorted({x.name() for x in via})
            elif not key_is_item:
                why = "the key is %s, not the iterated version" % cm.origin_summary(org)
        R.require(ok, "per-version#%d" % n, c.where(), "seen.%s(&version) for the version being iterated" % c.name(),
                  fail_msg="the in-batch duplicate test looks `seen` up by something other than each version of the range (%s): a range whose endpoints were handled is skipped although "
                           "inner versions were not, and their re-offers are then swallowed by the seen cache" % why)


# ------------------------------------------------------------------------------------------------ known
def known(ctx):
    F = ctx.F
    R = ctx.rule("C10.known", "K2", "process_multiple_changes skips a change as already known only when contains_all is true on the bookkeeping of that change's actor")
    bodies = [b for b in F.family(F.get(PMC)) if F.get(PMC)] if F.get(PMC) else []
    cas = [(b, c) for b in bodies for c in b.calls if c.f.endswith("BookedVersions::contains_all")]
    if not R.floor(len(cas), 2, "contains_all", "contains_all checks in process_multiple_changes"):
        return
    for b, c in cas:
        te, fe = flow.true_false_targets(b, c)
        R.require(bool(te) and bool(fe), "branches#%d" % cas.index((b, c)), c.where(), "contains_all's result is branched on",
                  fail_msg="contains_all's result is not branched on")
        # arguments derive from the same change: versions() and seqs()
        a1 = cm.operand_origins(b, c, 1)
        a2 = cm.operand_origins(b, c, 2)
        ok = any(o.kind == "call" and o.call.name() == "versions" for o in a1) and any(o.kind == "call" and o.call.name() == "seqs" for o in a2)
        R.require(ok, "args#%d" % cas.index((b, c)), c.where(), "contains_all(change.versions(), change.seqs())",
                  fail_msg="contains_all is asked about %s / %s instead of the change's versions and seqs" % (cm.origin_summary(a1), cm.origin_summary(a2)))


# ------------------------------------------------------------------------------------------------ controls
def controls(cctx):
    silent = []
    F = cctx.F
    for name, expect in (("bad_evict", True), ("good_evict", False)):
        b = F.one(r"::%s$" % name)
        R = cctx.rule("C10.evict", "K4", "control:" + name)
        if b is None:
            silent.append("fixture %s missing" % name)
            continue
        _evict_fixture(cctx, b, R)
        fired = any(not o["ok"] for o in R.obligations)
        if fired != expect:
            silent.append("%s %s" % (name, "did not fire" if expect else "misfired"))
    return silent


def _evict_fixture(cctx, b, R):
    """same provenance query as evict(), on the fixture's pop/retain shape"""
    pops = [c for c in b.calls if c.f.endswith("Vec::<T, A>::pop")]
    if not pops:
        R.fail("fixture-pop", b.where(), "no pop in fixture")
        return
    p = pops[0]
    # the closure given to retain captures the key
    passed, created = cctx.G.closure_operands(b)
    for call, cid, i in passed:
        if call.name() != "retain":
            continue
        # upvars of the closure: operands of the aggregate
        for bb, bl in enumerate(b.blocks):
            for si, s in enumerate(bl["s"]):
                if s[0] == "A" and s[2][0] == "agg" and isinstance(s[2][1], dict) and s[2][1].get("closure") == cid:
                    for op in s[2][2]:
                        pl = op_place(op)
                        if pl is None:
                            continue
                        ok, why = _derives_from_call(b, pl, (bb, si), {p.bb})
                        R.require(ok, "fixture-key", call.where(), "key derives from popped", fail_msg="key derives from %s" % why)
