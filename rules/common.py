"""helpers shared by the per-property rule tables"""
import re

from corrolint.facts import op_place, op_const, op_local, rvalue_operands, Call
from corrolint import flow


def coroutines_of(F, fn_id):
    """all coroutine bodies nested in an async fn (the tracing::instrument wrapper adds levels)"""
    b = F.get(fn_id)
    if b is None:
        return []
    return [d for d in F.descendants(b) if d.kind == "coroutine"]


def main_coroutine(F, fn_id):
    """the innermost-most substantial coroutine of an async fn: the one with most blocks"""
    cs = coroutines_of(F, fn_id)
    if not cs:
        return None
    return max(cs, key=lambda c: c.n)


def family_calls(F, body, pred=None, noise=False):
    """calls in body and all nested closures/coroutines"""
    out = []
    for b in F.family(body):
        for c in b.calls:
            if (noise or not c.noise) and (pred is None or pred(c)):
                out.append(c)
    return out


def aggregates(body, adt_suffix=None, variant=None):
    """(bb, idx, place, kinddict, ops, line) for ADT aggregates built in body"""
    out = []
    live = body.live_blocks()
    for bb, bl in enumerate(body.blocks):
        if bb not in live:
            continue
        for i, s in enumerate(bl["s"]):
            if s[0] == "A" and s[2][0] == "agg" and isinstance(s[2][1], dict) and "adt" in s[2][1]:
                k = s[2][1]
                if adt_suffix and not (k["adt"] == adt_suffix or k["adt"].endswith("::" + adt_suffix)):
                    continue
                if variant and k.get("variant") != variant:
                    continue
                out.append((bb, i, s[1], k, s[2][2], s[3]))
    return out


def all_aggregates(F, adt_suffix, variant=None):
    out = []
    for b in F.bodies.values():
        for a in aggregates(b, adt_suffix, variant):
            out.append((b,) + a)
    return out


def field_reads(body, field_name, base_ty_rx=None):
    """statements/terminators that read a place projecting `.field_name`"""
    out = []
    live = body.live_blocks()

    def has(place):
        for p in place[1:]:
            if isinstance(p, list) and p[0] == "f" and p[2] == field_name:
                return True
        return False

    for bb, bl in enumerate(body.blocks):
        if bb not in live:
            continue
        for i, s in enumerate(bl["s"]):
            if s[0] == "A":
                from corrolint.facts import rvalue_places
                for p in rvalue_places(s[2]):
                    if has(p):
                        out.append((bb, i, p, s[3]))
        t = bl["term"]
        for a in t.get("args", []):
            p = op_place(a)
            if p is not None and has(p):
                out.append((bb, "T", p, t.get("line", 0)))
    return out


def field_writes(body, field_name):
    """assignments whose destination place projects `.field_name` (any depth)"""
    out = []
    live = body.live_blocks()
    for bb, bl in enumerate(body.blocks):
        if bb not in live:
            continue
        for i, s in enumerate(bl["s"]):
            if s[0] == "A":
                for p in s[1][1:]:
                    if isinstance(p, list) and p[0] == "f" and p[2] == field_name:
                        out.append((bb, i, s[1], s[2], s[3]))
                        break
        t = bl["term"]
        if t["t"] == "call":
            for p in t["dest"][1:]:
                if isinstance(p, list) and p[0] == "f" and p[2] == field_name:
                    out.append((bb, "T", t["dest"], None, t.get("line", 0)))
                    break
    return out


def place_base_type(body, place):
    return body.ty(place[0])


def sql_strings(body, include_promoted=True):
    """string constants that look like SQL"""
    rx = re.compile(r"^\s*(--[^\n]*\n\s*)*(SELECT|INSERT|UPDATE|DELETE|CREATE|DROP|ALTER|PRAGMA|BEGIN|COMMIT|ROLLBACK|ATTACH|DETACH|VACUUM|WITH|REPLACE|SAVEPOINT|RELEASE|ANALYZE)\b", re.I)
    return [(s, bb, line) for (s, bb, line) in body.const_strings(include_promoted) if rx.search(s)]


def short_id(bid):
    return bid


def call_arg_const(call, i):
    if i < len(call.args):
        return op_const(call.args[i])
    return None


def dominated_by_call(body, a, b):
    """call a's success (its normal target) dominates call b's block"""
    t = body.term(a.bb)
    tgt = t.get("tgt")
    if tgt is None:
        return False
    return body.edge_dominates((a.bb, tgt), b.bb) and a.bb != b.bb


# ---------------------------------------------------------------- comparison guards (K9 helpers)

def eq_compares(body, self_ty_rx):
    """PartialEq::eq / ne calls whose Self type matches"""
    rx = re.compile(self_ty_rx)
    return [c for c in body.calls if c.f in ("core::cmp::PartialEq::eq", "core::cmp::PartialEq::ne") and rx.search(c.self_ty) and not c.noise]


def effect_only_when_equal(body, cmp_call, effect_blocks):
    """(ok, detail): the effect blocks are reachable when the compare says EQUAL and unreachable when it says DIFFERENT"""
    tt = flow.effect_truth_table(body, [cmp_call.bb], effect_blocks)
    is_eq = cmp_call.name() == "eq"
    when_equal = tt[(True,)] if is_eq else tt[(False,)]
    when_diff = tt[(False,)] if is_eq else tt[(True,)]
    return (when_equal and not when_diff), {"equal": when_equal, "different": when_diff}


def returns_when(body, cmp_call):
    """for a bool closure: (set of return values when EQUAL, when DIFFERENT)"""
    tt = flow.return_truth_table(body, [cmp_call.bb])
    is_eq = cmp_call.name() == "eq"
    return (tt[(True,)] if is_eq else tt[(False,)]), (tt[(False,)] if is_eq else tt[(True,)])


def operand_origins(body, call, i):
    p = op_place(call.args[i])
    if p is None:
        return set()
    return flow.origins(body, p, at=(call.bb, "T"))


def origin_summary(orgs):
    out = []
    for o in orgs:
        if o.kind == "call":
            out.append("call:%s%s" % (o.call.f.rsplit("::", 2)[-2] + "::" + o.call.name() if "::" in o.call.f else o.call.f, ("." + ".".join(o.field_names())) if o.field_names() else ""))
        elif o.kind == "arg":
            out.append("arg%d%s" % (o.local, ("." + ".".join(o.field_names())) if o.field_names() else ""))
        elif o.kind == "const":
            c = o.const or {}
            out.append("const:%s" % (c.get("s", c.get("v", c.get("named", c.get("agg", c.get("t")))))))
        else:
            out.append(o.kind)
    return sorted(set(out))


def blocks_of_calls(calls):
    return sorted({c.bb for c in calls})


def agg_blocks(body, adt_suffix, variant=None):
    return sorted({a[0] for a in aggregates(body, adt_suffix, variant)})


def call_strings(body, call, F=None):
    """string constants flowing into the arguments of a call (directly or through locals / format pieces)"""
    out = []
    for a in call.args:
        k = op_const(a)
        if k is not None:
            if "s" in k:
                out.append(k["s"])
            elif F is not None and "named" in k:
                v = F.const_str(k)
                if v:
                    out.append(v)
            continue
        p = op_place(a)
        if p is None:
            continue
        for o in flow.origins(body, p, at=(call.bb, "T")):
            if o.kind == "const" and o.const:
                if "s" in o.const:
                    out.append(o.const["s"])
                elif "promoted" in o.const:
                    pr = body.promoted[o.const["promoted"]] if o.const["promoted"] < len(body.promoted) else []
                    out += [x["s"] for x in pr if "s" in x]
                elif F is not None and "named" in o.const:
                    v = F.const_str(o.const)
                    if v:
                        out.append(v)
    return out


# ---------------------------------------------------------------- SQL call taxonomy
CONN_SQL = re.compile(r"^rusqlite::Connection::(execute|execute_batch|prepare|query_row|query_one|prepare_with_flags)$"
                      r"|^rusqlite::cache::<impl rusqlite::Connection>::prepare_cached$"
                      r"|^rusqlite::pragma::<impl rusqlite::Connection>::pragma_(update|query_value|query|update_and_check)$"
                      r"|^klukai_types::sqlite_pool::InterruptibleTransaction::<T>::(execute|prepare|prepare_cached|execute_batch|query_row)$")
CONN_STEP = re.compile(r"^rusqlite::Connection::(execute|execute_batch|query_row|query_one)$"
                       r"|^rusqlite::pragma::<impl rusqlite::Connection>::pragma_(update|update_and_check)$"
                       r"|^klukai_types::sqlite_pool::InterruptibleTransaction::<T>::(execute|execute_batch|query_row)$")
STMT_STEP = re.compile(r"^rusqlite::statement::Statement::<'_>::(query|execute|query_map|query_row|raw_execute|raw_query|insert|exists|query_and_then|query_one)$")
TX_BEGIN = re.compile(r"^rusqlite::transaction::<impl rusqlite::Connection>::(transaction|transaction_with_behavior|savepoint|unchecked_transaction)$"
                      r"|^klukai_types::sqlite::CrConn::immediate_transaction$"
                      r"|^rusqlite::transaction::(Transaction|Savepoint)::<'_>::savepoint$"
                      r"|^klukai_types::sqlite_pool::InterruptibleTransaction::<T>::savepoint$")
TX_WRAP = re.compile(r"^klukai_types::sqlite_pool::InterruptibleTransaction::<T>::new$")
COMMIT = re.compile(r"^rusqlite::transaction::(Transaction|Savepoint)::<'_>::commit$"
                    r"|^klukai_types::sqlite_pool::InterruptibleTransaction::<T>::commit$|^klukai_types::sqlite_pool::Committable::commit$")


def upvar_path(name):
    """closure capture symbols of precise captures look like `self__conn`: split into a field path"""
    return tuple(x for x in name.split("__") if x)


# ---------------------------------------------------------------- typed place walking
def _strip_ref(ty):
    ty = ty.strip()
    for pre in ("&mut ", "&'_ mut ", "&"):
        if ty.startswith(pre):
            return ty[len(pre):].strip(), True
    m = re.match(r"^&'\w+ (mut )?", ty)
    if m:
        return ty[m.end():].strip(), True
    for box in ("alloc::boxed::Box<", "alloc::sync::Arc<", "alloc::rc::Rc<"):
        if ty.startswith(box) and ty.endswith(">"):
            return ty[len(box):-1].split(",")[0].strip(), True
    return ty, False


def place_field_owners(F, body, place):
    """[(adt_id, field_name)] for each field projection of `place` whose base type is a workspace ADT"""
    out = []
    ty = body.ty(place[0])
    for p in place[1:]:
        if ty is None:
            # unknown base type: still report by name with unknown owner
            if isinstance(p, list) and p[0] == "f":
                out.append((None, p[2]))
            continue
        if p == "*":
            ty, _ = _strip_ref(ty)
            continue
        if isinstance(p, list) and p[0] == "f":
            base = ty
            while True:
                nb, stripped = _strip_ref(base)
                if not stripped:
                    break
                base = nb
            head = base.split("<", 1)[0]
            adt = F.adts.get(head)
            if adt is None:
                out.append((None, p[2]))
                ty = None
                continue
            out.append((head, p[2]))
            fty = None
            for v in adt["variants"]:
                if p[1] < len(v["fields"]) and v["fields"][p[1]]["name"] == p[2]:
                    fty = v["fields"][p[1]]["ty"]
            ty = fty
        elif isinstance(p, list) and p[0] == "d":
            continue
        else:
            ty = None
    return out


def field_mutation_sites(F, adt_id, field, bodies=None):
    """(body, bb, how, line): places where `adt_id.field` is assigned, mutably borrowed or moved out of/into"""
    out = []
    for b in (bodies if bodies is not None else F.bodies.values()):
        live = None
        for bb, bl in enumerate(b.blocks):
            for i, s in enumerate(bl["s"]):
                if s[0] != "A":
                    continue
                hit = None
                # destination
                if len(s[1]) > 1 and any(isinstance(p, list) and p[0] == "f" and p[2] == field for p in s[1][1:]):
                    if (adt_id, field) in place_field_owners(F, b, s[1]):
                        hit = "assign"
                rv = s[2]
                if hit is None and rv[0] == "ref" and rv[1] == "mut" and any(isinstance(p, list) and p[0] == "f" and p[2] == field for p in rv[2][1:]):
                    if (adt_id, field) in place_field_owners(F, b, rv[2]):
                        hit = "&mut"
                if hit is None and rv[0] == "ptr" and any(isinstance(p, list) and p[0] == "f" and p[2] == field for p in rv[1][1:]):
                    if (adt_id, field) in place_field_owners(F, b, rv[1]):
                        hit = "rawptr"
                if hit:
                    if live is None:
                        live = b.live_blocks()
                    if bb in live:
                        out.append((b, bb, hit, s[3]))
                        if hit == "&mut" and len(s[1]) == 1:
                            # `mem::replace(&mut x.field, v)` / swap / take: an assignment through the borrow
                            al = {s[1][0]}
                            grew = True
                            while grew:
                                grew = False
                                for bl2 in b.blocks:
                                    for s2 in bl2["s"]:
                                        if s2[0] == "A" and len(s2[1]) == 1 and s2[1][0] not in al:
                                            r2 = s2[2]
                                            src = r2[2] if r2[0] == "ref" else (op_place(r2[1]) if r2[0] == "use" else None)
                                            if src is not None and src[0] in al and all(x == "*" for x in src[1:]):
                                                al.add(s2[1][0])
                                                grew = True
                            for c in b.calls:
                                if c.f in ("core::mem::replace", "core::mem::swap", "core::mem::take") and any(op_local(a) in al and len(op_place(a)) == 1 for a in c.args if op_place(a) is not None):
                                    out.append((b, c.bb, "assign-replace", c.line))
            t = bl["term"]
            if t["t"] == "call" and len(t["dest"]) > 1 and any(isinstance(p, list) and p[0] == "f" and p[2] == field for p in t["dest"][1:]):
                if (adt_id, field) in place_field_owners(F, b, t["dest"]):
                    if live is None:
                        live = b.live_blocks()
                    if bb in live:
                        out.append((b, bb, "assign-call", t.get("line", 0)))
    return out


def deep_names(b, place, at, hops=5, nargs=1):
    """field names and callee names met while following a value back through receiver (arg0) chains"""
    fields, calls = set(), set()
    work = [(place, at, hops)] if place is not None else []
    seen = set()
    while work:
        pl, at_, h = work.pop()
        for o in flow.origins(b, pl, at=at_):
            fields |= set(o.field_names())
            if o.kind == "call":
                calls.add(o.call.name())
                if h > 0 and o.call.bb not in seen and o.call.args:
                    seen.add(o.call.bb)
                    for a in o.call.args[:nargs]:
                        if op_place(a) is not None:
                            work.append((op_place(a), (o.call.bb, "T"), h - 1))
    return fields, calls


def deep_arg_fields(b, place, at, hops=6, nargs=1):
    """{'argN.field...'} reached by following a value back through receiver chains and call arguments 0..1"""
    out = set()
    work = [(place, at, hops)] if place is not None else []
    seen = set()
    while work:
        pl, at_, h = work.pop()
        for o in flow.origins(b, pl, at=at_):
            if o.kind == "arg":
                out.add("arg%d%s" % (o.local, ("." + ".".join(o.field_names())) if o.field_names() else ""))
            elif o.kind == "call" and h > 0 and o.call.bb not in seen:
                seen.add(o.call.bb)
                for a in o.call.args[:nargs]:
                    if op_place(a) is not None:
                        work.append((op_place(a), (o.call.bb, "T"), h - 1))
    return out
