"""C05 — a sync server only sends what it holds and never declares unknown versions empty (structural clauses)."""
import itertools
import re

from corrolint import flow, sqlmini
from corrolint.facts import op_place, op_const, op_local
from . import common as cm
from . import sqlinv, tx

PEER = "klukai_agent::api::peer::"
HN = PEER + "handle_need"
ROW_TO_CHANGE = "klukai_types::change::row_to_change"


def run(ctx):
    ctx.trust("SQLite: one transaction = one read snapshot", "speedy/LengthDelimited framing", "rangemap semantics")
    ctx.assume("correctness for every reachable database state x request is not decided; tiling of the chunks is C08")
    empty(ctx)
    emptyctor(ctx)
    unprocessed(ctx)
    filter_(ctx)
    snapshot(ctx)
    range_(ctx)
    buffered(ctx)
    cols(ctx)
    order(ctx)
    errstop(ctx)


def _flag_queries(F, b):
    """query sites returning (in_gaps, buffered): [(site, idx_gaps, idx_buffered)]"""
    out = []
    for s in sqlinv.inventory(F, [b]):
        low = s.sql.lower()
        if "__corro_bookkeeping_gaps" in low and "__corro_buffered_changes" in low and low.count("exists") >= 2:
            ig = low.index("__corro_bookkeeping_gaps")
            ib = low.index("__corro_buffered_changes")
            out.append((s, 0 if ig < ib else 1, 1 if ig < ib else 0))
    return out


def empty(ctx):
    F = ctx.F
    R = ctx.rule("C05.empty", "K9", "handle_need records a version as empty exactly when it is neither in the gaps table nor buffered")
    b = F.get(HN)
    if not R.anchor(b, "handle_need", "fn handle_need"):
        return
    qs = _flag_queries(F, b)
    if not R.floor(len(qs), 2, "flag-queries", "EXISTS(gaps), EXISTS(buffered) queries"):
        return
    inserts = [c for c in b.calls if re.search(r"RangeInclusiveSet::<T.*>::insert$", c.f) and "CrsqlDbVersion" in c.self_ty]
    if not R.floor(len(inserts), 2, "empties-inserts", "empties.insert sites"):
        return
    for n, (s, ig, ib) in enumerate(qs):
        prep = s.call
        # the query_row call stepping this statement, and the (bool, bool) tuple it yields
        steps = [c for c in b.calls if c.f.endswith("Statement::<'_>::query_row") and any(o.kind == "call" and o.call.bb == prep.bb for o in cm.operand_origins(b, c, 0))]
        if not R.anchor(steps, "query_row#%d" % n, "query_row of the flags statement"):
            continue
        q = steps[0]
        # locals bound to .0 and .1 of the Ok payload
        tainted, _ = flow.taint(b, [q.dest[0]])
        flags = {}
        for bb in b.live_blocks():
            for i, st in enumerate(b.blocks[bb]["s"]):
                if st[0] == "A" and len(st[1]) == 1 and b.ty(st[1][0]) == "bool" and st[2][0] == "use":
                    p = op_place(st[2][1])
                    if p is not None and p[0] in tainted and len(p) >= 2:
                        idxs = [x[1] for x in p[1:] if isinstance(x, list) and x[0] == "f"]
                        if idxs and flow.vdominates(b, q.bb, bb):
                            flags[idxs[-1]] = (st[1][0], bb)
        if not R.require(set(flags) == {0, 1}, "flags#%d" % n, q.where(), "both flags are destructured from the row", fail_msg="could not find the (in_gaps, buffered) locals of the query at %s" % q.where()):
            continue
        lg, lb = flags[ig][0], flags[ib][0]
        start = max(flags[0][1], flags[1][1])
        mine = [c for c in inserts if b.can_reach(start, c.bb, no_nodes=(prep.bb,))]
        if not R.anchor(mine, "insert#%d" % n, "empties.insert reachable from this query"):
            continue
        table = {}
        for vg, vb in itertools.product((False, True), repeat=2):
            reach, _ = flow.eval_guard(b, {}, start=start, env0={lg: vg, lb: vb}, extra_tracked={lg, lb}, no_nodes={prep.bb}, frozen={lg, lb})
            table[(vg, vb)] = any(c.bb in reach for c in mine)
        want = {(False, False): True, (False, True): False, (True, False): False, (True, True): False}
        R.require(table == want, "empty-iff-neither#%d" % n, mine[0].where(), "empties.insert reachable by (in_gaps, buffered): %s" % {k: v for k, v in table.items()},
                  fail_msg="a version is declared empty under (in_gaps, buffered) = %s: the server would tell the peer a version it still needs / only holds partially is empty"
                           % [k for k, v in table.items() if v and not want[k]] if any(v and not want[k] for k, v in table.items()) else "a held-empty version is not declared empty: %s" % table)
        # both EXISTS are about the requested (actor, version)
        low = s.sql.lower()
        R.require(low.count(":actor_id") >= 2 and low.count(":version") >= 2, "same-key#%d" % n, prep.where(), "both EXISTS subqueries are keyed by (:actor_id, :version)",
                  fail_msg="the flags query does not key both subqueries by (:actor_id, :version)")


def emptyctor(ctx):
    F = ctx.F
    R = ctx.rule("C05.emptyctor", "K1+K4", "Changeset::Empty is sent by the sync server only for the ranges collected in `empties`")
    b = F.get(HN)
    if not R.anchor(b, "handle_need", "fn handle_need"):
        return
    aggs = cm.aggregates(b, "klukai_types::broadcast::Changeset", "Empty")
    if not R.require(len(aggs) == 1, "one-ctor", b.where(), "one Changeset::Empty construction in handle_need", fail_msg="expected one Changeset::Empty in handle_need, found %d" % len(aggs)):
        return
    bb, i, place, k, ops, line = aggs[0]
    vi = k["fields"].index("versions")
    ok, why = _derives_from_field_iter(b, op_place(ops[vi]), (bb, i))
    R.require(ok, "from-empties", "%s:%d" % (b.file, line), "Empty.versions iterates the `empties` set (%s)" % why, fail_msg="Changeset::Empty.versions comes from %s, not from the verified `empties` set" % why)
    # no other Empty in the peer server path
    others = [(x.id) for x in F.bodies.values() if x.id.startswith(PEER) and x.id != HN and cm.aggregates(x, "klukai_types::broadcast::Changeset", "Empty")]
    R.require(not others, "no-other-empty", "", "no other Changeset::Empty construction in api::peer", fail_msg="Changeset::Empty is also constructed in %s" % others)


def unprocessed(ctx):
    """versions for which rows were found must not take part in the empties pass: they are removed from `unprocessed`"""
    F = ctx.F
    R = ctx.rule("C05.unprocessed", "K2+K4", "a requested version that has live rows is struck from the `unprocessed` set before the empties / partial pass, which iterates only that set")
    b = F.get(HN)
    if not R.anchor(b, "handle_need", "fn handle_need"):
        return
    rems = [c for c in b.calls if re.search(r"RangeInclusiveSet::<T.*>::remove$", c.f) and "CrsqlDbVersion" in c.self_ty]
    sends = [c for c in b.calls if (c.t.get("r") or c.f) == PEER + "send_change_chunks"]
    if not (R.anchor(rems, "unprocessed.remove", "unprocessed.remove(version..=version)") and R.anchor(sends, "send_change_chunks", "send_change_chunks calls")):
        return
    r = rems[0]
    # on the same loop as the first (full version) send and before it
    first = [s for s in sends if b.in_loop_with(r.bb, s.bb)]
    R.require(bool(first) and b.dominates(r.bb, first[0].bb), "struck-before-send", r.where(), "the version is struck from `unprocessed` in the rows loop, before its changes are sent",
              fail_msg="versions with live rows are no longer removed from `unprocessed`: they would also go through the empties pass and be declared empty")
    f = cm.deep_names(b, op_place(r.args[1]), (r.bb, "T"), nargs=2)
    R.require("get" in f[1] or "new" in f[1], "struck-version-from-row", r.where(), "the struck version is the row's db_version (%s)" % sorted(f[1])[:4])
    # the empties query sites are reachable only from iterating `unprocessed` (Full) or from the None arm (Partial)
    qs = _flag_queries(F, b)
    ins = [c for c in b.calls if re.search(r"RangeInclusiveSet::<T.*>::insert$", c.f) and "CrsqlDbVersion" in c.self_ty]
    R.require(len(ins) >= 3, "unprocessed-seeded", b.where(), "`unprocessed` starts as the requested range (insert) and empties are inserted separately (%d inserts)" % len(ins))


def _derives_from_field_iter(b, place, at):
    names, calls = cm.deep_names(b, place, at, hops=8)
    # the set local `empties`: a RangeInclusiveSet::new() local that only `insert` touches
    org = flow.origins(b, place, at=at)
    srcs = set()
    work = [(place, at, 8)]
    seen = set()
    ctor = False
    while work:
        pl, at_, h = work.pop()
        for o in flow.origins(b, pl, at=at_):
            if o.kind == "call":
                if re.search(r"RangeInclusiveSet::<T.*>::new$", o.call.f):
                    ctor = True
                if h > 0 and o.call.bb not in seen and o.call.args and op_place(o.call.args[0]) is not None:
                    seen.add(o.call.bb)
                    work.append((op_place(o.call.args[0]), (o.call.bb, "T"), h - 1))
    return ctor, sorted(calls)


def filter_(ctx):
    F = ctx.F
    R = ctx.rule("C05.filter", "K2", "process_sync serves a need only after testing it against the server's own bookkeeping (needed / beyond head), skipping unknown actors")
    cos = cm.coroutines_of(F, PEER + "process_sync")
    b = next((x for x in cos if any(c.f.endswith("UnboundedSender::<T>::send") for c in x.calls)), None)
    if not R.anchor(b, "process_sync", "process_sync coroutine sending jobs"):
        return
    send = [c for c in b.calls if c.f.endswith("UnboundedSender::<T>::send")][0]
    alls = [c for c in b.calls if c.f == "core::iter::traits::iterator::Iterator::all"]
    contains = [c for c in b.calls if re.search(r"RangeInclusiveSet::<T.*>::contains$", c.f)]
    lasts = [c for c in F.family(b) for c in c.calls if c.f.endswith("BookedVersions::last")]
    needed = [c for x in F.family(b) for c in x.calls if c.f.endswith("BookedVersions::needed")]
    R.require(bool(alls) and bool(needed) and bool(lasts), "availability-test", b.where(), "needs are tested with needed().contains(v) / last() (Full: all versions; Partial: the version)",
              fail_msg="process_sync no longer tests requested versions against needed()/last() before serving")
    # for each test: on its `true` (all still needed) edge the send is not reachable within the iteration
    tests = alls + [c for c in contains if c.body is b]
    n = 0
    for c in tests:
        te, fe = flow.true_false_targets(b, c)
        if not te:
            continue
        n += 1
    R.floor(n, 2, "tests-branched", "availability tests whose result is branched on")
    # Full: `all(..)` true => continue (skip)
    for c in alls:
        te, fe = flow.true_false_targets(b, c)
        if te:
            heads = [x.bb for x in b.calls if x.name() == "next" and b.dominates(x.bb, c.bb) and b.in_loop_with(x.bb, c.bb)]
            cut = tuple(set(heads[-1:]) | {c.bb}) if heads else (c.bb,)
            skip_ok = all(send.bb not in b.reachable(e[1], no_nodes=cut) for e in te)
            R.require(skip_ok, "full-skip", c.where(), "a Full need whose versions are all still needed / beyond head is skipped",
                      fail_msg="a Full need that the server itself still needs can reach the job send")
    # unknown actor: None => continue
    gets = [c for c in b.calls if re.search(r"HashMap::<K, V, S>::get$|BookieInner.*::get$|Option::<&T>::cloned$", c.f)]
    cl = [c for c in b.calls if c.f.endswith("Option::<&T>::cloned")]
    if R.anchor(cl, "booked-lookup", "bookie.get(&actor_id).cloned()"):
        ve = flow.variant_edges(b, cl[0].dest)
        ok = False
        for sw, m, other in ve:
            none_t = m.get(0, other)
            if send.bb not in b.reachable(none_t, no_nodes=(cl[0].bb,)):
                ok = True
        R.require(ok, "unknown-actor-skipped", cl[0].where(), "an actor without bookkeeping is skipped (nothing served)",
                  fail_msg="needs for an actor the server has no bookkeeping for can reach the job send")
    # what is served is handle_need on a read-pool connection
    fut = [x for x in F.family(b) if any((c.t.get("r") or c.f) == HN for c in x.calls)]
    if R.anchor(fut, "job", "job future calling handle_need"):
        x = fut[0]
        c = [c for c in x.calls if (c.t.get("r") or c.f) == HN][0]
        roots = sqlinv.classify_conn(F, x, op_place(c.args[0]), (c.bb, "T"))
        R.require(roots == {"pool:read"}, "job-conn", c.where(), "handle_need runs on a read-pool connection", fail_msg="handle_need runs on %s" % sorted(roots))


def _passes_loop_head(b, frm, to, via):
    return False


def snapshot(ctx):
    F = ctx.F
    R = ctx.rule("C05.snapshot", "K4", "every query of one handle_need call runs on the single transaction opened at its start (one read snapshot)")
    b = F.get(HN)
    if not R.anchor(b, "handle_need", "fn handle_need"):
        return
    begins = tx.tx_begins(b)
    if not R.require(len(begins) == 1, "one-tx", b.where(), "one transaction in handle_need", fail_msg="handle_need opens %d transactions" % len(begins)):
        return
    key = {"tx:%s:%d" % (b.id, begins[0].bb)}
    sites = sqlinv.inventory(F, F.family(b))
    for n, s in enumerate(sites):
        R.require(s.recv == key, "site#%d" % n, s.call.where(), "query on the handle_need transaction", fail_msg="a query in handle_need runs on %s instead of the single read transaction" % sorted(s.recv))
    R.floor(len(sites), 4, "sites", "SQL sites in handle_need")
    R.require(not tx.commits(b), "no-commit", b.where(), "the read transaction is never committed (read-only use)")


def range_(ctx):
    F = ctx.F
    R = ctx.rule("C05.range", "K7", "the (start, end) given to the chunker equals the seq range the row source was filtered with, or (0, MAX(seq)) for an unfiltered source")
    b = F.get(HN)
    if not R.anchor(b, "handle_need", "fn handle_need"):
        return
    news = [c for c in b.calls if c.f.endswith("ChunkedChanges::<I>::new")]
    if not R.floor(len(news), 2, "chunkers", "ChunkedChanges::new sites in handle_need"):
        return
    for n, c in enumerate(news):
        # row source: query_map(.., row_to_change) -> statement -> prepare_cached(SQL)
        rows = cm.operand_origins(b, c, 0)
        qm = [o.call for o in rows if o.kind == "call" and o.call.name() == "query_map"]
        if not R.anchor(qm, "rows#%d" % n, "query_map feeding the chunker"):
            continue
        q = qm[0]
        preps = [o.call for o in cm.operand_origins(b, q, 0) if o.kind == "call" and cm.CONN_SQL.search(o.call.f)]
        if not R.anchor(preps, "prepare#%d" % n, "prepare_cached of the row source"):
            continue
        sql = " ".join(cm.call_strings(b, preps[0], F))
        m = re.search(r"seq\s+BETWEEN\s+(:\w+)\s+AND\s+(:\w+)", sql, re.I)
        a1 = _value_sig(b, c, 1)
        a2 = _value_sig(b, c, 2)
        if m:
            binds = _named_params(b, q)
            lo, hi = binds.get(m.group(1)), binds.get(m.group(2))
            ok = lo is not None and hi is not None and lo & a1 and hi & a2
            R.require(bool(ok), "filtered#%d" % n, c.where(), "chunker(start,end) == SQL (%s, %s)" % (m.group(1), m.group(2)),
                      fail_msg="the chunker is told a different seq range than the SQL filter %s..%s uses: changes could lie outside the advertised range (chunker: %s / %s; sql: %s / %s)"
                               % (m.group(1), m.group(2), sorted(a1)[:3], sorted(a2)[:3], sorted(lo or [])[:3], sorted(hi or [])[:3]))
        else:
            k = flow.origins(b, op_place(c.args[1]), at=(c.bb, "T")) if op_place(c.args[1]) is not None else set()
            zero = bool(k) and all(o.kind == "const" and o.const.get("v") == 0 for o in k)
            last = cm.operand_origins(b, c, 2)
            from_row = any(o.kind == "call" and o.call.f.endswith("Row::<'_>::get") for o in last)
            R.require(zero and from_row, "unfiltered#%d" % n, c.where(), "an unfiltered source is chunked over 0..=MAX(seq) read from the same version row",
                      fail_msg="an unfiltered row source is chunked over %s..%s" % (cm.origin_summary(k), cm.origin_summary(last)))


def buffered(ctx, rid="C05.buffered"):
    """a partially buffered version is answered with the INTERSECTION of a held seq range (row of __corro_seq_bookkeeping)
    and the requested range: start derives from both starts (max), end from both ends (min)  (added after C05-c / C03-c)"""
    F = ctx.F
    R = ctx.rule(rid, "K4", "the chunk range served from __corro_buffered_changes is bounded by the held range AND the requested range: start = max(held.start, requested.start), end = min(held.end, requested.end)")
    b = F.get(HN)
    if not R.anchor(b, "handle_need", "fn handle_need"):
        return
    site = None
    for c in b.calls:
        if not c.f.endswith("ChunkedChanges::<I>::new"):
            continue
        qm = [o.call for o in cm.operand_origins(b, c, 0) if o.kind == "call" and o.call.name() == "query_map"]
        if not qm:
            continue
        preps = [o.call for o in cm.operand_origins(b, qm[0], 0) if o.kind == "call" and cm.CONN_SQL.search(o.call.f)]
        if preps and "__corro_buffered_changes" in " ".join(cm.call_strings(b, preps[0], F)):
            site = (c, qm[0])
    if not R.anchor(site, "buffered-chunker", "ChunkedChanges::new over rows of __corro_buffered_changes"):
        return
    c, q = site
    binds = _named_params(b, q)
    stop_mm = lambda k: k.name() in ("max", "min")
    for ai, want, acc, bind in ((1, "max", "start", ":start_seq"), (2, "min", "end", ":end_seq")):
        pl = op_place(c.args[ai])
        org = flow.origins(b, pl, at=(c.bb, "T"), stop=stop_mm) if pl is not None else set()
        mm = [o.call for o in org if o.kind == "call" and o.call.name() in ("max", "min")]
        sides = set()
        accs = set()
        leaves = []
        if mm:
            for k in mm:
                for j in range(min(2, len(k.args))):
                    if op_place(k.args[j]) is not None:
                        leaves += list(flow.origins(b, op_place(k.args[j]), at=(k.bb, "T"), stop=lambda x: x.name() in ("start", "end")))
        else:
            leaves = list(flow.origins(b, pl, at=(c.bb, "T"), stop=lambda x: x.name() in ("start", "end"))) if pl is not None else []
        for x in leaves:
            if x.kind == "call" and x.call.name() in ("start", "end") and x.call.args and op_place(x.call.args[0]) is not None:
                accs.add(x.call.name())
                for y in flow.origins(b, op_place(x.call.args[0]), at=(x.call.bb, "T")):
                    sides.add("requested" if y.kind == "arg" else "held" if y.kind == "call" else y.kind)
            elif x.kind == "arg":
                sides.add("requested")
        R.require({"requested", "held"} <= sides and accs == {acc}, "both-%ss" % acc, c.where(),
                  "the chunker's %s derives from the held range's %s and the requested range's %s" % (acc, acc, acc),
                  fail_msg="the chunker's %s for a partially buffered version derives from %s via %s: it must be bounded by BOTH the held and the requested range, otherwise the changeset claims sequences the server does not hold (or was not asked for)"
                           % (acc, sorted(sides) or "nothing recognisable", sorted(accs) or "no start()/end()"))
        if mm:
            R.require(all(k.name() == want for k in mm), "%s-is-%s" % (acc, want), mm[0].where(), "%s is the %s of the two %ss" % (acc, want, acc),
                      fail_msg="the served %s is the %s of the held and requested %ss (must be %s for an intersection)" % (acc, mm[0].name(), acc, want))


def _value_sig(b, call, ai):
    """set of origin signatures (call bb / arg+fields) of an argument, following receivers a few hops"""
    out = set()
    work = [(op_place(call.args[ai]), (call.bb, "T"), 4)]
    seen = set()
    while work:
        pl, at, h = work.pop()
        if pl is None:
            continue
        for o in flow.origins(b, pl, at=at):
            if o.kind == "call":
                out.add(("call", o.call.bb))
                if h > 0 and o.call.bb not in seen and o.call.args and op_place(o.call.args[0]) is not None and o.call.name() in ("start", "end", "max", "min", "deref", "clone"):
                    seen.add(o.call.bb)
                    work.append((op_place(o.call.args[0]), (o.call.bb, "T"), h - 1))
            elif o.kind == "arg":
                out.add(("arg", o.local, o.field_names()))
    return out


def _named_params(b, step_call):
    """{':name': value signature} of the named_params! array passed to a statement step call"""
    out = {}
    org = flow.origins(b, op_place(step_call.args[1]), at=(step_call.bb, "T")) if len(step_call.args) > 1 and op_place(step_call.args[1]) is not None else set()
    # the tuples are built in the blocks leading to the call: scan tuple aggregates (":name", value) dominating the call
    for bb in b.live_blocks():
        if not b.dominates(bb, step_call.bb):
            continue
        for i, s in enumerate(b.blocks[bb]["s"]):
            if s[0] == "A" and s[2][0] == "agg" and s[2][1] == "tuple" and len(s[2][2]) == 2:
                k = op_const(s[2][2][0])
                name = k.get("s") if k else None
                if name is None and op_place(s[2][2][0]) is not None:
                    for o in flow.origins(b, op_place(s[2][2][0]), at=(bb, i)):
                        if o.kind == "const" and o.const and str(o.const.get("s", "")).startswith(":"):
                            name = o.const["s"]
                if not name or not name.startswith(":"):
                    continue
                # nearest binding wins (later blocks override)
                class _C:
                    pass
                fake = _C()
                fake.args = [None, s[2][2][1]]
                fake.bb = bb
                sig = set()
                work = [(op_place(s[2][2][1]), (bb, i), 4)]
                seen = set()
                while work:
                    pl, at, h = work.pop()
                    if pl is None:
                        continue
                    for o in flow.origins(b, pl, at=at):
                        if o.kind == "call":
                            sig.add(("call", o.call.bb))
                            if h > 0 and o.call.bb not in seen and o.call.args and op_place(o.call.args[0]) is not None and o.call.name() in ("start", "end", "max", "min", "deref", "clone"):
                                seen.add(o.call.bb)
                                work.append((op_place(o.call.args[0]), (o.call.bb, "T"), h - 1))
                        elif o.kind == "arg":
                            sig.add(("arg", o.local, o.field_names()))
                out.setdefault(name, set())
                # keep only the binding closest to the call (dominance order): overwrite when this block is dominated by the previous one
                out[name] = sig if sig else out[name]
    return out


def cols(ctx):
    F = ctx.F
    R = ctx.rule("C05.cols", "K6", "every SELECT whose rows are decoded by row_to_change lists its columns in the order row_to_change reads them")
    rb = F.get(ROW_TO_CHANGE)
    if not R.anchor(rb, "row_to_change", "fn row_to_change"):
        return
    aggs = cm.aggregates(rb, "klukai_types::change::Change")
    if not R.anchor(aggs, "Change-ctor", "Change{..} in row_to_change"):
        return
    bb, i, place, k, ops, line = aggs[0]
    order = {}
    for fn, op in zip(k["fields"], ops):
        p = op_place(op)
        for o in (flow.origins(rb, p, at=(bb, i)) if p is not None else []):
            if o.kind == "call" and o.call.name() == "get":
                kk = op_const(o.call.args[1])
                if kk is not None and "v" in kk:
                    order[kk["v"]] = fn
    want = [order.get(j) for j in range(len(order))]
    R.require(len(order) == 9 and None not in want, "mapping", rb.where(), "row_to_change reads columns %s" % want, fail_msg="could not establish row_to_change's column mapping: %s" % order)
    if None in want or not want:
        return
    n = 0
    for b in F.bodies.values():
        if b.crate not in ("klukai_agent", "klukai_types"):
            continue
        for c in b.calls:
            if c.name() not in ("query_map", "query_and_then"):
                continue
            fnk = [op_const(a) for a in c.args if op_const(a) is not None]
            if not any(k2.get("fn") == ROW_TO_CHANGE for k2 in fnk):
                continue
            n += 1
            preps = [o.call for o in cm.operand_origins(b, c, 0) if o.kind == "call" and cm.CONN_SQL.search(o.call.f)]
            if not preps:
                R.fail("sql#%d" % n, c.where(), "cannot find the SQL of a row_to_change query (undischargeable)")
                continue
            sql = " ".join(cm.call_strings(b, preps[0], F))
            try:
                sc = sqlmini.select_columns(sql)[:9]
            except sqlmini.ParseError as ex:
                R.fail("parse#%d" % n, c.where(), "cannot parse column list: %s" % ex)
                continue
            R.require(sc == want, "cols@%s#%d" % (F.root_fn(b).id.rsplit("::", 1)[-1], n), c.where(), "SELECT columns %s match row_to_change" % sc,
                      fail_msg="SELECT lists %s but row_to_change reads %s: values land in the wrong Change fields (e.g. seq/cl swapped)" % (sc, want))
    R.floor(n, 3, "queries", "queries decoded with row_to_change")


def order(ctx):
    F = ctx.F
    R = ctx.rule("C05.order", "K2", "serve_sync: clock read -> concurrency permit -> generate_sync -> State -> Clock -> spawn process_sync, in this dominance order")
    cos = cm.coroutines_of(F, PEER + "serve_sync")
    b = next((x for x in cos if any((c.t.get("r") or c.f) == "klukai_types::sync::generate_sync" for c in x.calls)), None)
    if not R.anchor(b, "serve_sync", "serve_sync coroutine"):
        return
    def first(pred):
        cs = [c for c in b.calls if pred(c)]
        return cs[0] if cs else None
    rd = first(lambda c: (c.t.get("r") or c.f) == PEER + "read_sync_msg")
    pm = first(lambda c: c.f.endswith("Semaphore::try_acquire"))
    gs = first(lambda c: (c.t.get("r") or c.f) == "klukai_types::sync::generate_sync")
    ps = first(lambda c: (c.t.get("r") or c.f) == PEER + "process_sync")
    st = cm.agg_blocks(b, "klukai_types::sync::SyncMessageV1", "State")
    seq = [("read peer clock", rd), ("try_acquire", pm), ("generate_sync", gs), ("process_sync", ps)]
    for name, c in seq:
        R.anchor(c, name, name + " in serve_sync")
    seq = [(n, c) for n, c in seq if c is not None]
    for (n1, a), (n2, c2) in zip(seq, seq[1:]):
        R.require(b.dominates(a.bb, c2.bb), "%s<%s" % (n1, n2), c2.where(), "%s precedes %s" % (n1, n2), fail_msg="%s is not preceded by %s on every path" % (n2, n1))
    if gs is not None and st:
        R.require(all(b.dominates(gs.bb, x) for x in st), "state-after-generate", b.where(st[0]), "the State message carries the freshly generated sync state")
    # no permit => rejection and return before generating
    if pm is not None and gs is not None:
        ve = flow.variant_edges(b, pm.dest)
        ok = False
        for sw, m, other in ve:
            err_t = m.get(1, other)
            if gs.bb not in b.reachable(err_t):
                ok = True
        R.require(ok, "no-permit-no-state", pm.where(), "without a concurrency permit no sync state is generated or served",
                  fail_msg="serve_sync generates/serves state even when try_acquire failed")


def errstop(ctx):
    """A chunk's range is what the receiver books as received.  ChunkedChanges keeps its cursor and buffer when the row source
    fails, so pulling it again after an error yields a chunk whose range covers the failed row without carrying it: the receiver
    would book a change it never got.  After `Some(Err(_))` nothing more of that version may be sent."""
    F = ctx.F
    R = ctx.rule("C05.errstop", "K2", "send_change_chunks: once the chunker reports a row error no further chunk of that version is pulled or sent")
    b = F.get(PEER + "send_change_chunks")
    if not R.anchor(b, "send_change_chunks", "fn send_change_chunks"):
        return
    chunker_errstop(R, b, r"Sender::<T>::(blocking_send|send|try_send)$", "SyncMessage")


def chunker_errstop(R, b, send_rx, send_ty):
    nx = [c for c in b.calls if c.name() == "next" and "ChunkedChanges" in c.self_ty]
    if not R.anchor(nx, "chunker.next", "chunked.next()"):
        return
    n = nx[0]
    sends = [c for c in b.calls if re.search(send_rx, c.f) and send_ty in c.self_ty]
    tainted, _ = flow.taint(b, [n.dest[0]])
    err_ts = []
    for bb in b.live_blocks():
        t = b.term(bb)
        if t["t"] != "sw" or not b.can_reach(n.bb, bb):
            continue
        for s_ in b.blocks[bb]["s"]:
            if s_[0] == "A" and s_[2][0] == "disc" and op_local(t["d"]) == s_[1][0]:
                pl = s_[2][1]
                direct = pl[0] == n.dest[0] and any(isinstance(x, list) and x[0] == "d" and x[1] == "Some" for x in pl[1:])
                moved = len(pl) == 1 and pl[0] in tainted and b.ty(pl[0]).startswith("core::result::Result<(alloc::vec::Vec<klukai_types::change::Change>")
                if direct or moved:
                    m = {v: x for v, x in t["targets"]}
                    err_ts.append(m.get(1, t["else"]))
    if not R.anchor(err_ts, "err-arm", "the Err(_) arm of the match on the chunker's item"):
        return
    again = [e for e in err_ts if n.bb in b.reachable(e) or any(x.bb in b.reachable(e) for x in sends)]
    R.require(not again, "stops-on-error", b.where(err_ts[0]), "from the Err(_) arm neither the chunker nor a send is reachable",
              fail_msg="after the chunker reported a row error, %s can pull the chunker again / send: the next chunk claims the sequence range of the unread row "
                       "(ChunkedChanges keeps its cursor), so the receiver books a change it never received" % cm.short_id(b.id))
