"""Shared TX rule family (DESIGN.md §3): transactions, commits, publish-after-commit."""
import re

from corrolint import flow
from corrolint.facts import op_place, op_const, op_local
from . import common as cm
from . import sqlinv


def tx_begins(body):
    return [c for c in body.calls if cm.TX_BEGIN.search(c.f)]


def commits(body):
    return [c for c in body.calls if cm.COMMIT.search(c.f) or cm.COMMIT.search(c.t.get("r") or "")]


def tx_roots(F, body, call, argi=0, resolve_params=False):
    """tx:<body>:<bb> roots of the value passed as argument argi of call"""
    p = op_place(call.args[argi]) if argi < len(call.args) else None
    if p is None:
        return set()
    return sqlinv.classify_conn(F, body, p, (call.bb, "T"), 0, resolve_params)


def commit_ok_edges(body, commit_call):
    return flow.ok_edge_of(body, commit_call)


def dominated_by_commit(F, body, site_bb, tx_filter=None):
    """(ok, commit_calls): site_bb is dominated by the Ok edge(s) of commit call(s) in this body"""
    cs = commits(body)
    good = []
    for c in cs:
        if tx_filter is not None:
            r = tx_roots(F, body, c, 0)
            if not (r & tx_filter):
                continue
        edges = commit_ok_edges(body, c)
        if edges and body.edges_dominate(edges, site_bb):
            good.append(c)
    return bool(good), good


def closure_ok_returns_after_commit(F, closure_body, allow_false_before=False):
    """every `Ok(..)` value returned by the closure is built after a commit's Ok edge.
    With allow_false_before, an `Ok(false)` (constant) may be returned before the commit: the caller must then act only
    on a true payload (checked by the caller of this helper)."""
    cs = commits(closure_body)
    if not cs:
        return False, "no commit in closure"
    edges = []
    for c in cs:
        edges += commit_ok_edges(closure_body, c)
    if not edges:
        return False, "commit result not checked with `?`"
    oks = []
    for bb, bl in enumerate(closure_body.blocks):
        if bb not in closure_body.live_blocks():
            continue
        for s in bl["s"]:
            if s[0] == "A" and s[1] == [0] and s[2][0] == "agg" and isinstance(s[2][1], dict) and s[2][1].get("variant") == "Ok":
                oks.append((bb, s))
    if not oks:
        return False, "no Ok(..) return found"
    bad = []
    early_false = 0
    for bb, s in oks:
        if closure_body.edges_dominate(edges, bb):
            continue
        k = op_const(s[2][2][0]) if s[2][2] else None
        if allow_false_before and k is not None and k.get("t") == "bool" and k.get("v") == 0:
            early_false += 1
            continue
        bad.append(bb)
    return (not bad), ("Ok return at bb%s not dominated by commit" % bad if bad else "all %d Ok returns follow the commit%s" % (len(oks) - early_false, (" (%d early Ok(false))" % early_false) if early_false else ""))


def publish_after_commit(F, G, body, site_call):
    """TX2: the effect at site_call happens only after a successful commit.
    Accepts (a) a commit Ok edge in the same body dominating the site; (b) the site is dominated by the Ok edge
    of a call that runs a closure (block_in_place) all of whose Ok returns follow a commit; (c) the body itself is
    such a closure's continuation in an enclosing coroutine (one level)."""
    ok, cs = dominated_by_commit(F, body, site_call.bb)
    if ok:
        return True, "dominated by Ok edge of commit at %s" % cs[0].where()
    passed, created = G.closure_operands(body)
    for call, cid, i in passed:
        cb = F.get(cid)
        if cb is None:
            continue
        if not (call.f.startswith("tokio::task::blocking::block_in_place") or True):
            continue
        good, why = closure_ok_returns_after_commit(F, cb)
        if not good:
            continue
        edges = flow.ok_edge_of(body, call)
        if edges and body.edges_dominate(edges, site_call.bb):
            return True, "dominated by Ok edge of %s(closure) whose Ok returns follow a commit (%s)" % (call.name(), why)
    return False, "no commit Ok edge dominates the site"
