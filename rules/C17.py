"""C17 — the HTTP API enforces its token on every route; read endpoints cannot write.

Strong on authorization (router shape + middleware truth table); partial on read-only (connection provenance,
readonly() guard, never-commit rule for subscription SQL).
"""
import re

from corrolint import flow
from corrolint.facts import op_place, op_const, op_local, rvalue_operands
from . import common as cm

SETUP = "klukai_agent::agent::util::setup_http_api_handler"
AUTHZ = "klukai_agent::agent::util::require_authz"
ROUTE_ADDERS = re.compile(r"^axum::routing::Router::<S>::(route|route_service|nest|nest_service|merge|fallback|fallback_service|method_not_allowed_fallback)$")
WRITE_CONN_APIS = re.compile(r"^klukai_types::agent::SplitPool::(write_priority|write_normal|write_low|write_inner|dedicated|client_dedicated)$")
SQL_EXEC = re.compile(r"^rusqlite::(Connection|statement::Statement|transaction::Transaction|transaction::Savepoint|cache::CachedStatement)[:<].*::(execute|execute_batch|query|query_row|query_map|query_and_then|prepare|prepare_cached|raw_execute|insert|exists|query_one)$"
                      r"|^rusqlite::Connection::(execute|execute_batch|query_row|prepare|prepare_cached|query_one)|^rusqlite::statement::Statement::<'_>::(execute|query|query_row|query_map|query_and_then|insert|exists|raw_execute|raw_query)")


def run(ctx):
    ctx.trust("axum: Router::layer wraps the routes added before it (not after)", "axum_extra TypedHeader<Authorization<Bearer>> parsing",
              "SQLite OPEN_READ_ONLY / sqlite3_stmt_readonly semantics", "rusqlite Transaction rolls back on drop unless commit() is called")
    ctx.assume("header parsing and SQLite's read-only enforcement are trusted; only their use is decided")
    routes(ctx)
    deny(ctx)
    ro_endpoints(ctx)
    ro_guard(ctx)
    ro_subs(ctx)


def _chain_back(body, call):
    """list of builder calls from `call` back to the constructor following argument 0"""
    chain, cur, seen = [], call, set()
    while cur is not None and cur.bb not in seen:
        seen.add(cur.bb)
        chain.append(cur)
        if not cur.args or op_place(cur.args[0]) is None:
            break
        org = flow.origins(body, op_place(cur.args[0]), at=(cur.bb, "T"))
        calls = flow.origin_calls(org)
        cur = calls[0] if len(calls) == 1 else None
    return chain


# ------------------------------------------------------------------------------------------------ routes
def routes(ctx):
    F = ctx.F
    R = ctx.rule("C17.routes", "K2+K1", "every route is added to the single router before the require_authz layer; nothing is added after; one Router::new / axum::serve site")
    b = cm.main_coroutine(F, SETUP)
    if not R.anchor(b, "setup", "async fn setup_http_api_handler"):
        return
    layers = [c for c in b.calls if c.f == "axum::routing::Router::<S>::layer"]
    auth = None
    for c in layers:
        org = flow.origins(b, op_place(c.args[1]), at=(c.bb, "T")) if op_place(c.args[1]) is not None else set()
        for oc in flow.origin_calls(org):
            if oc.f.startswith("axum::middleware::from_fn::from_fn"):
                k = op_const(oc.args[0]) if oc.args else None
                if k and k.get("fn") == AUTHZ:
                    auth = c
    if not R.anchor(auth, "authz-layer", "Router::layer(from_fn(require_authz))"):
        return
    chain = _chain_back(b, auth)
    chain_bbs = {c.bb for c in chain}
    adders = [c for c in b.calls if ROUTE_ADDERS.search(c.f)]
    if not R.floor(len(adders), 4, "routes", "Router::route calls"):
        return
    for c in adders:
        k = op_const(c.args[1]) if len(c.args) > 1 else None
        path = (k or {}).get("s") or "|".join(cm.call_strings(b, c)[:1]) or "?"
        R.require(c.bb in chain_bbs, "route:%s" % path, c.where(), "route %s is on the builder chain below the require_authz layer" % path,
                  fail_msg="route %s is not wrapped by the require_authz layer (added after it or on another router)" % path)
    R.require(chain and chain[-1].f.startswith("axum::routing::Router::<S>::new"), "chain-root", chain[-1].where() if chain else "",
              "the chain starts at Router::new", fail_msg="the authz layer's router does not start from Router::new in this function (merged/nested router?)")
    # nothing route-like after the authz layer: any adder whose chain contains auth
    for c in adders:
        back = {x.bb for x in _chain_back(b, c)}
        R.require(auth.bb not in back, "no-route-after-layer:%d" % adders.index(c), c.where(), "route is not added after the authz layer",
                  fail_msg="a route is added on top of the authz-wrapped router: it bypasses require_authz")
    # what is served derives from the authz-wrapped router
    serves = [c for c in b.calls if c.f.startswith("axum::serve::serve")]
    if R.anchor(serves, "serve", "axum::serve call"):
        for s in serves:
            org = flow.origins(b, op_place(s.args[1]), at=(s.bb, "T"))
            ok = False
            for oc in flow.origin_calls(org):
                ch = _chain_back(b, oc)
                if auth.bb in {x.bb for x in ch}:
                    ok = True
            R.require(ok, "served-router", s.where(), "axum::serve serves the authz-wrapped router",
                      fail_msg="axum::serve is given a service that does not derive from the authz-wrapped router")
    # single sites in the workspace
    news = [c for c in F.all_calls() if c.f.startswith("axum::routing::Router::<S>::new") and c.body.crate in ("klukai_agent", "klukai_types", "corrosion")]
    svs = [c for c in F.all_calls() if c.f.startswith("axum::serve::serve") and c.body.crate in ("klukai_agent", "klukai_types", "corrosion")]
    R.require(len(news) == 1 and F.root_fn(news[0].body).id == SETUP, "single-router", news[0].where() if news else "", "one Router::new site (setup_http_api_handler)",
              fail_msg="another axum Router is built in %s: its routes are not behind require_authz" % [F.root_fn(c.body).id for c in news if F.root_fn(c.body).id != SETUP])
    R.require(len(svs) == 1 and F.root_fn(svs[0].body).id == SETUP, "single-serve", svs[0].where() if svs else "", "one axum::serve site",
              fail_msg="another axum::serve site: %s" % [F.root_fn(c.body).id for c in svs if F.root_fn(c.body).id != SETUP])


# ------------------------------------------------------------------------------------------------ deny
def _deny_inline(ctx, R, b, run_):
    """require_authz written as one `match (configured token, header)` with the comparison in the function body itself"""
    F = ctx.F
    eqs = [c for x in F.family(b) for c in x.calls if c.f in ("core::cmp::PartialEq::eq", "core::cmp::PartialEq::ne") and re.search(r"str|String", c.self_ty)]
    if not R.require(len(eqs) == 1 and eqs[0].body is b, "token-compare", b.where(), "one string equality decides the header match",
                     fail_msg="expected exactly one str equality in require_authz, found %d (prefix/contains/case-insensitive compare?)" % len(eqs)):
        return
    c = eqs[0]
    s0, s1 = cm.origin_summary(cm.operand_origins(b, c, 0)), cm.origin_summary(cm.operand_origins(b, c, 1))
    R.require(any("token" in x for x in s0 + s1) and c.name() == "eq", "token-operands", c.where(), "compares header.token() with the configured token by `==` (%s vs %s)" % (s0, s1),
              fail_msg="require_authz does not compare header.token() == configured token: %s %s %s" % (s0, c.name(), s1))
    weak = [x for y in F.family(b) for x in y.calls if re.search(r"::(starts_with|ends_with|contains|eq_ignore_ascii_case|find|to_lowercase|trim\w*)$", x.f)]
    R.require(not weak, "no-weak-compare", b.where(), "no prefix/substring/case-folding call", fail_msg="require_authz uses %s" % (weak[0].f if weak else ""))
    # the switch on the configured token (Option): a discriminant read of a place that originates in `.authorization`
    none_t = None
    for bb in b.live_blocks():
        t = b.term(bb)
        if t["t"] != "sw":
            continue
        for st in b.blocks[bb]["s"]:
            if st[0] == "A" and st[2][0] == "disc" and op_local(t["d"]) == st[1][0]:
                org = flow.origins(b, st[2][1], at=(bb, "T"))
                if any("authorization" in o.field_names() for o in org) and none_t is None:
                    m = {v: x for v, x in t["targets"]}
                    none_t = m.get(0, t["else"])
    if not R.anchor(none_t, "authorization-switch", "match on config.api.authorization"):
        return
    r_true, _ = flow.eval_guard(b, {c.bb: True}, start=c.bb)
    r_false, _ = flow.eval_guard(b, {c.bb: False}, no_nodes={none_t})
    R.require(run_.bb in r_true and run_.bb not in r_false, "forward-iff-match", run_.where(),
              "with a configured token next.run is reached iff the token comparison is true (true: %s, false/absent: %s)" % (run_.bb in r_true, run_.bb in r_false),
              fail_msg="with a configured token next.run is reachable although the token comparison is false or was never made (true: %s, false/absent: %s)" % (run_.bb in r_true, run_.bb in r_false))
    named = [k["named"] for bl in b.blocks for st in bl["s"] if st[0] == "A" for op in rvalue_operands(st[2]) for k in [op_const(op)] if k and "named" in k and "StatusCode" in k.get("t", "")]
    R.require(any(re.search(r"StatusCode::(UNAUTHORIZED|FORBIDDEN)$", n) for n in named), "status-4xx", b.where(), "the denial status is 401/403 (%s)" % named,
              fail_msg="require_authz's denial status is not 401/403: %s" % named)
    cfg = [x for x in b.calls if (x.t.get("r") or x.f) == "klukai_types::agent::Agent::config"]
    R.require(bool(cfg), "cfg", b.where(), "the token is read from agent.config() at request time", fail_msg="require_authz no longer reads agent.config()")


def deny(ctx):
    F = ctx.F
    R = ctx.rule("C17.deny", "K2+K9", "require_authz forwards the request only when no token is configured or the bearer token equals the configured one; otherwise returns a 4xx")
    b = cm.main_coroutine(F, AUTHZ)
    if not R.anchor(b, "require_authz", "async fn require_authz"):
        return
    runs = [c for c in b.calls if c.f.endswith("middleware::from_fn::Next::run")]
    if not R.require(len(runs) == 1, "next.run", b.where(), "one next.run site", fail_msg="expected one next.run in require_authz, found %d" % len(runs)):
        return
    run_ = runs[0]
    # header match value: Option::map(header, closure).unwrap_or(false)
    uw = [c for c in b.calls if re.search(r"Option::<T>::(unwrap_or|is_some_and|map_or|unwrap_or_default)$", c.f) and c.t.get("dty") == "bool"]
    if not uw:
        return _deny_inline(ctx, R, b, run_)
    if not R.require(len(uw) == 1, "header-match", b.where(), "one bool-valued Option combinator computing the header match",
                     fail_msg="expected one bool-valued Option combinator (map(..).unwrap_or(false)) in require_authz, found %d" % len(uw)):
        return
    u = uw[0]
    tgt = b.term(u.bb)["tgt"]
    res = {}
    for v in (False, True):
        reach, _ = flow.eval_guard(b, {u.bb: v}, start=tgt, env0={u.dest[0]: v})
        res[v] = run_.bb in reach
    R.require(res[True] and not res[False], "forward-iff-match", run_.where(), "with a configured token, next.run is reached iff the header matched (%s)" % res,
              fail_msg="with a configured token next.run reachability by header-match outcome is %s (must be {True: True, False: False})" % res)
    if u.name() == "unwrap_or":
        k = op_const(u.args[1])
        R.require(k is not None and k.get("v") == 0, "default-deny", u.where(), "a missing/unparsable header defaults to `false`",
                  fail_msg="missing Authorization header defaults to pass")
    # the denied edge returns a 4xx
    named = []
    for bl in b.blocks:
        for s in bl["s"]:
            if s[0] == "A":
                from corrolint.facts import rvalue_operands
                for op in rvalue_operands(s[2]):
                    k = op_const(op)
                    if k and "named" in k and "StatusCode" in k.get("t", ""):
                        named.append(k["named"])
    R.require(any(re.search(r"StatusCode::(UNAUTHORIZED|FORBIDDEN)$", n) for n in named), "status-4xx", b.where(), "the denial status is 401/403 (%s)" % named,
              fail_msg="require_authz's denial status is not 401/403: %s" % named)
    # the no-token path: `passed = true` only on the None edge of config.api.authorization
    mp = [c for c in b.calls if c.f.endswith("Option::<T>::map") and u.bb in b.reachable(c.bb)]
    # the closure given to map compares with exact equality
    closures = [x for x in F.children.get(b.id, []) if x.kind == "closure"]
    eqs = []
    for cl in closures:
        for c in cl.calls:
            if c.f in ("core::cmp::PartialEq::eq", "core::cmp::PartialEq::ne") and re.search(r"str|String", c.self_ty):
                eqs.append((cl, c))
    if R.require(len(eqs) == 1, "token-compare", b.where(), "one string equality in the header-match closure",
                 fail_msg="expected exactly one str equality in the header closure, found %d (prefix/contains/case-insensitive compare?)" % len(eqs)):
        cl, c = eqs[0]
        o0, o1 = cm.operand_origins(cl, c, 0), cm.operand_origins(cl, c, 1)
        s0, s1 = cm.origin_summary(o0), cm.origin_summary(o1)
        tok = any("token" in x for x in s0 + s1)
        upv = any(x.startswith("arg1") for x in s0 + s1)
        R.require(tok and upv and c.name() == "eq", "token-operands", c.where(), "compares header.token() with the configured token by `==` (%s vs %s)" % (s0, s1),
                  fail_msg="the header closure does not compare header.token() == configured token: %s %s %s" % (s0, c.name(), s1))
        # closure returns exactly that comparison
        rv = flow.return_truth_table(cl, [c.bb])
        R.require(rv[(True,)] == {True} and rv[(False,)] == {False}, "closure-returns-compare", c.where(), "the closure returns the equality result unchanged",
                  fail_msg="the header closure's result is not the equality result: %s" % rv)
        weak = [x for x in cl.calls if re.search(r"::(starts_with|ends_with|contains|eq_ignore_ascii_case|find|to_lowercase|trim\w*)$", x.f)]
        R.require(not weak, "no-weak-compare", cl.where(), "no prefix/substring/case-folding call in the closure",
                  fail_msg="the header closure uses %s" % (weak[0].f if weak else ""))
    # configured token comes from live config
    cfg = [c for c in b.calls if (c.t.get("r") or c.f) == "klukai_types::agent::Agent::config"]
    R.require(bool(cfg), "cfg", b.where(), "the token is read from agent.config() at request time", fail_msg="require_authz no longer reads agent.config()")
    # `passed` literal true only on the None edge of the authorization option
    sw = [bb for bb in b.live_blocks() if b.term(bb)["t"] == "sw" and any(s[0] == "A" and s[2][0] == "disc" and any(isinstance(x, list) and x[0] == "f" and x[2] == "authorization" for x in s[2][1][1:]) for s in b.blocks[bb]["s"])]
    if R.anchor(sw, "authorization-switch", "match on config.api.authorization"):
        s0 = sw[0]
        t = b.term(s0)
        m = {v: x for v, x in t["targets"]}
        some_edge = (s0, m.get(1, t["else"]))
        none_edge = (s0, m.get(0, t["else"]))
        R.require(b.edge_dominates(some_edge, u.bb), "some->header", u.where(), "with a configured token the header match is evaluated",
                  fail_msg="the header match is not on the Some(token) edge")
        # on the Some edge run is reachable only via the header-match (checked above); on the None edge run must be reachable
        R.require(run_.bb in b.reachable(none_edge[1]), "none->open", run_.where(), "with no token configured the request is forwarded",
                  fail_msg="with no token configured the API is closed")
        # every path from the Some edge to next.run passes the header-match call
        R.require(run_.bb not in b.reachable(some_edge[1], no_nodes=(u.bb,)), "some->must-match", run_.where(), "with a token configured every path to next.run evaluates the header match",
                  fail_msg="with a token configured there is a path to next.run that skips the header match")


# ------------------------------------------------------------------------------------------------ read-only endpoints
RO_ENDPOINTS = ["klukai_agent::api::public::api_v1_queries", "klukai_agent::api::public::build_query_rows_response",
                "klukai_agent::api::public::api_v1_table_stats"]


def ro_endpoints(ctx):
    F, G = ctx.F, ctx.G
    R = ctx.rule("C17.ro-endpoints", "K4+K8", "query/table-stats endpoints: no write-capable connection API is reachable; every SQL site runs on a connection from SplitPool::read")
    roots = []
    for e in RO_ENDPOINTS:
        b = F.get(e)
        if R.anchor(b, e.rsplit("::", 1)[-1], "fn " + e):
            roots.append(b)
    if not roots:
        return
    fam = []
    for r in roots:
        fam += F.family(r)
    D = G.reachable_bodies(fam)
    bad = [c for b in D for c in b.calls if WRITE_CONN_APIS.search(c.t.get("r") or c.f)]
    R.require(not bad, "no-write-conn", bad[0].where() if bad else "", "no SplitPool::write_*/dedicated/client_dedicated call is reachable from the read endpoints (%d bodies)" % len(D),
              fail_msg="a write-capable connection is obtained on a read endpoint path: %s in %s" % ((bad[0].f, bad[0].body.id) if bad else ("", "")))
    n = 0
    ws = [b for b in D if b.crate == "klukai_agent"]
    for b in ws:
        for c in b.calls:
            if c.noise or not cm.CONN_SQL.search(c.f):
                continue
            n += 1
            org = _conn_origin(F, b, c)
            ok = bool(org) and all(x in ("SplitPool::read", "SplitPool::read_blocking") for x in org)
            R.require(ok, "conn@%s#%d" % (F.root_fn(b).id.rsplit("::", 1)[-1], n), c.where(), "%s runs on a read-pool connection" % c.name(),
                      fail_msg="%s in %s runs on a connection from %s, not from the read-only pool" % (c.name(), b.id, sorted(org) or "unknown"))
    R.floor(n, 3, "sql-sites", "prepare/execute sites on read endpoints")
    # SplitPool::read* use only the `read` field
    for fn in ("klukai_types::agent::SplitPool::read", "klukai_types::agent::SplitPool::read_blocking"):
        bodies = F.family(F.get(fn)) if F.get(fn) else []
        gets = [c for b in bodies for c in b.calls if c.f.endswith("managed::Pool::<M, W>::get")]
        if R.anchor(gets, fn.rsplit("::", 1)[-1] + ".get", "pool.get() in " + fn):
            for c in gets:
                org = cm.operand_origins(c.body, c, 0)
                fields = {f for o in org for f in o.field_names()}
                R.require("read" in fields and "write" not in fields, fn.rsplit("::", 1)[-1] + ".field", c.where(), "%s takes its connection from SplitPoolInner.read" % fn.rsplit("::", 1)[-1],
                          fail_msg="%s takes its connection from field(s) %s" % (fn, sorted(fields)))


def _conn_origin(F, body, call, depth=0):
    """names of the APIs that produced the connection on which `call` runs (following closure upvars to the parent)"""
    out = set()
    org = flow.origins(body, op_place(call.args[0]), at=(call.bb, "T"))
    for o in org:
        if o.kind == "call":
            r = o.call.t.get("r") or o.call.f
            m = re.search(r"SplitPool::(\w+)", r)
            if m:
                out.add("SplitPool::" + m.group(1))
            elif o.call.f == "core::future::future::Future::poll":
                out.add("poll:" + r)
            else:
                out.add(o.call.f.rsplit("::", 2)[-2] + "::" + o.call.name() if o.call.f.count("::") >= 2 else o.call.f)
        elif o.kind == "arg" and o.local == 1 and body.parent and depth < 4 and body.kind != "fn":
            # upvar: find the operand in the parent's closure aggregate
            parent = F.get(body.parent)
            fname = o.field_names()[0] if o.field_names() else None
            found = False
            if parent is not None and fname is not None:
                for bb, bl in enumerate(parent.blocks):
                    for i, s in enumerate(bl["s"]):
                        if s[0] == "A" and s[2][0] == "agg" and isinstance(s[2][1], dict) and (s[2][1].get("closure") == body.id or s[2][1].get("coroutine") == body.id):
                            names = s[2][1].get("fields", [])
                            if fname in names:
                                op = s[2][2][names.index(fname)]
                                p = op_place(op)
                                if p is not None:
                                    fake = type("C", (), {})()
                                    o2 = flow.origins(parent, p, at=(bb, i))
                                    for x in o2:
                                        if x.kind == "call":
                                            r = x.call.t.get("r") or x.call.f
                                            m = re.search(r"SplitPool::(\w+)", r)
                                            out.add("SplitPool::" + m.group(1) if m else x.call.f)
                                            found = True
                                        elif x.kind == "arg" and x.local == 1 and parent.kind != "fn":
                                            # one more level up
                                            class _C:  # minimal call-like wrapper
                                                pass
                                            out |= _upvar_origin(F, parent, x.field_names()[0] if x.field_names() else None, depth + 1)
                                            found = True
                                        else:
                                            out.add(x.kind)
                                            found = True
            if not found:
                out.add("upvar:%s" % fname)
        else:
            out.add(o.kind + (":" + ".".join(o.field_names()) if o.field_names() else ""))
    return out


def _upvar_origin(F, body, fname, depth):
    out = set()
    parent = F.get(body.parent) if body.parent else None
    if parent is None or fname is None or depth > 4:
        return {"upvar:%s" % fname}
    for bb, bl in enumerate(parent.blocks):
        for i, s in enumerate(bl["s"]):
            if s[0] == "A" and s[2][0] == "agg" and isinstance(s[2][1], dict) and (s[2][1].get("closure") == body.id or s[2][1].get("coroutine") == body.id):
                names = s[2][1].get("fields", [])
                if fname in names:
                    p = op_place(s[2][2][names.index(fname)])
                    if p is None:
                        continue
                    for x in flow.origins(parent, p, at=(bb, i)):
                        if x.kind == "call":
                            r = x.call.t.get("r") or x.call.f
                            m = re.search(r"SplitPool::(\w+)", r)
                            out.add("SplitPool::" + m.group(1) if m else x.call.f)
                        elif x.kind == "arg" and x.local == 1 and parent.kind != "fn":
                            out |= _upvar_origin(F, parent, x.field_names()[0] if x.field_names() else None, depth + 1)
                        else:
                            out.add(x.kind + (":" + ".".join(x.field_names()) if x.field_names() else ""))
    return out or {"upvar:%s" % fname}


# ------------------------------------------------------------------------------------------------ readonly() guard
def ro_guard(ctx):
    F, G = ctx.F, ctx.G
    R = ctx.rule("C17.ro-guard", "K2", "build_query_rows_response steps the client statement only when Statement::readonly() returned true")
    root = F.get("klukai_agent::api::public::build_query_rows_response")
    if not R.anchor(root, "fn", "fn build_query_rows_response"):
        return
    fam = F.family(root)
    ro = [(b, c) for b in fam for c in b.calls if c.f.endswith("statement::Statement::<'_>::readonly")]
    if not R.require(len(ro) == 1, "readonly-call", root.where(), "one Statement::readonly() check", fail_msg="expected one Statement::readonly() call, found %d" % len(ro)):
        return
    b, c = ro[0]
    # bodies that step the statement
    steppers = [x for x in fam if any(re.search(r"statement::Statement::<'_>::(query|execute|query_map|query_row|raw_execute|insert|raw_query|query_and_then)$", y.f) for y in x.calls)]
    if not R.anchor(steppers, "steppers", "closures that step the prepared statement"):
        return
    eff = []
    passed, created = G.closure_operands(b)
    for call, cid, i in passed:
        if any(cid == s.id or s.id.startswith(cid + "::") for s in steppers):
            eff.append(call.bb)
    for s in steppers:
        if s.id == b.id:
            eff += [y.bb for y in s.calls if re.search(r"statement::Statement::<'_>::(query|execute|query_map|query_row)$", y.f)]
    if not R.anchor(eff, "step-sites", "sites in the readonly() body where the stepping closure runs"):
        return
    tt = flow.effect_truth_table(b, [c.bb], eff)
    R.require(tt[(True,)] and not tt[(False,)], "step-iff-readonly", c.where(), "the statement is stepped only when readonly() is true (%s)" % tt,
              fail_msg="the client statement can be stepped although readonly() returned false: %s" % tt)
    # same statement: the receiver of readonly() and the stepped statement come from the same prepare
    org = cm.operand_origins(b, c, 0)
    preps = {o.call.bb for o in org if o.kind == "call"}
    R.require(len(preps) >= 1, "same-stmt", c.where(), "readonly() is asked of the prepared client statement (%s)" % cm.origin_summary(org),
              fail_msg="readonly() receiver is not the prepared statement")


# ------------------------------------------------------------------------------------------------ subscriptions: never commit on the state connection
def ro_subs(ctx):
    F = ctx.F
    R = ctx.rule("C17.ro-subs", "K2+K4", "subscription SQL: only a single SELECT is accepted; client-derived statements are stepped only inside transactions of the state connection that are never committed")
    mbodies = [b for b in F.bodies.values() if re.match(r"^klukai_types::pubsub::(Matcher::|dump_query_plan)", b.id)]
    if not R.floor(len(mbodies), 10, "matcher-bodies", "bodies of Matcher"):
        return
    n_commit = 0
    for b in mbodies:
        for c in b.calls:
            if c.name() == "commit" and "ransaction" in c.self_ty:
                n_commit += 1
                roots = _tx_conn_roots(F, b, c)
                ok = bool(roots) and all(r == "self.conn" for r in roots)
                R.require(ok, "commit@%s#%d" % (F.root_fn(b).id.rsplit("::", 1)[-1], c.line and n_commit), c.where(), "committed transaction belongs to the subscription's own database (self.conn)",
                          fail_msg="a transaction rooted in %s is committed in %s: statements derived from client SQL run in state-connection transactions, which must never commit" % (sorted(roots) or "?", b.id))
    R.floor(n_commit, 3, "commits", "commit sites in Matcher")
    # direct statements on the state connection (not through a transaction)
    n = 0
    for b in mbodies:
        for c in b.calls:
            if c.noise or not cm.CONN_SQL.search(c.f):
                continue
            roots = _recv_roots(F, b, c)
            if all(r == "self.conn" or r.startswith("tx:") or r.startswith("open:") for r in roots) and roots:
                continue
            n += 1
            strs = cm.call_strings(b, c, F)
            name = c.name()
            if name in ("prepare", "prepare_cached"):
                R.ok("state-prepare@%s" % F.root_fn(b).id.rsplit("::", 1)[-1], c.where(), "prepare only (does not step) on %s" % sorted(roots))
                continue
            ok = any(s.strip().upper().startswith("ATTACH DATABASE") for s in strs)
            R.require(ok, "state-exec@%s" % F.root_fn(b).id.rsplit("::", 1)[-1], c.where(), "only the constant ATTACH runs directly on the state connection",
                      fail_msg="%s on the state connection (%s) outside a never-committed transaction in %s (SQL pieces: %s)" % (name, sorted(roots), b.id, [s[:40] for s in strs]))
    # Matcher::new accepts only Cmd::Stmt(Stmt::Select)
    nb = F.get("klukai_types::pubsub::Matcher::new")
    if R.anchor(nb, "Matcher::new", "fn Matcher::new"):
        errs = {a[3]["variant"] for a in cm.aggregates(nb, "klukai_types::pubsub::MatcherError")}
        R.require({"UnsupportedStatement", "StatementRequired"} <= errs, "select-only", nb.where(), "non-SELECT / non-statement input is refused (%s)" % sorted(errs & {"UnsupportedStatement", "StatementRequired"}),
                  fail_msg="Matcher::new no longer refuses non-SELECT statements (error variants constructed: %s)" % sorted(errs))
        # no stepping in Matcher::new on state_conn
        step = [c for c in nb.calls if re.search(r"statement::Statement::<'_>::(query|execute|query_map|query_row|raw_execute|insert)$", c.f)]
        R.require(not step, "new-no-step", nb.where(), "Matcher::new only prepares the client text", fail_msg="Matcher::new steps a statement: %s" % (step[0].f if step else ""))


def _recv_roots(F, body, call):
    """classify the connection a rusqlite call runs on: 'self.conn' | 'tx:<root>' | 'state:<name>' | 'open:' ..."""
    out = set()
    org = flow.origins(body, op_place(call.args[0]), at=(call.bb, "T"))
    for o in org:
        if o.kind == "arg":
            fn = o.field_names()
            if "conn" in fn and body.ty(o.local).replace("&mut ", "").replace("&", "").endswith("pubsub::Matcher"):
                out.add("self.conn")
            elif o.local == 1 and body.kind != "fn" and fn:
                # upvar (precise captures are named like `self__conn`, `matcher__conn`)
                path = cm.upvar_path(fn[0]) + tuple(fn[1:])
                if "conn" in path[1:] and path[0] in ("self", "matcher"):
                    out.add("self.conn")
                elif path[0] in ("self", "matcher") and len(path) == 1 and "conn" in fn[1:]:
                    out.add("self.conn")
                else:
                    out.add("state:" + fn[0])
            elif fn and fn[-1] == "conn" and "Matcher" in body.ty(o.local):
                out.add("self.conn")
            else:
                out.add("state:arg%d" % o.local)
        elif o.kind == "call":
            f = o.call.f
            if f.endswith("::transaction") or f.endswith("::savepoint") or "transaction_with_behavior" in f:
                sub = _recv_roots(F, body, o.call)
                out |= {("tx:" + s) for s in sub}
            elif f.startswith("rusqlite::Connection::open"):
                out.add("open:")
            else:
                out.add("call:" + o.call.name())
        else:
            out.add(o.kind)
    return out


def _tx_conn_roots(F, body, commit_call):
    roots = _recv_roots(F, body, commit_call)
    out = set()
    for r in roots:
        if r.startswith("tx:"):
            out.add(r[3:])
        else:
            out.add(r)
    return out
