"""C20 — database writers are mutually exclusive, prioritised and never deadlock.

Decided statically (DESIGN.md §3 C20): single constructor of WriteConn; pool size / permit constants; acquisition
order inside write_inner; dispatcher priority order + biased select + one grant at a time; global lock-order graph
(acyclic, conforming to conn -> bookie -> booked) including awaited and synchronously-called callees; no two guards
of the same per-actor class; no sync guard across an await; no blocking lock acquisition in async context.
"""
import re
from collections import defaultdict

from corrolint import flow, graph
from corrolint.facts import op_place, op_const, op_local
from . import common as cm

WRITE_INNER = "klukai_types::agent::SplitPool::write_inner"
SPLITPOOL_NEW = "klukai_types::agent::SplitPool::new"
SPLITPOOL_CREATE = "klukai_types::agent::SplitPool::create"

# classes internal to the CountedTokioRwLock / LockRegistry implementation (generic bodies)
INTERNAL = {"counted<T>", "tk:T", "pl:IndexMap"}

BLOCKING_LOCK_API = re.compile(
    r"::blocking_(write|read|lock|write_owned|read_owned)$|::read_blocking$|::write_permit_blocking$|"
    r"Condvar::wait(_for|_until|_while)?$|::acquire_blocking_(read|write|write_owned)$")


def run(ctx):
    F, G = ctx.F, ctx.G
    ctx.trust("tokio RwLock/Semaphore/oneshot/mpsc semantics", "tokio::select! `biased;` polls branches in declaration order",
              "deadpool pool hands out at most max_size objects", "rusqlite/deadpool Drop releases the connection",
              "MIR scope-end Drop/StorageDead = guard release")
    ctx.assume("fairness/starvation bounds and timeout values are not decided",
               "two tokio semaphores share the class `permit` (write_sema and the sync-serving limiter); edges are reported per site")
    mint(ctx)
    one(ctx)
    inner(ctx)
    prio(ctx)
    order(ctx)
    await_(ctx)
    block(ctx)
    guard(ctx)


# ------------------------------------------------------------------------------------------------ C20.mint
def mint(ctx):
    F = ctx.F
    R = ctx.rule("C20.mint", "K1", "WriteConn is constructed only in SplitPool::write_inner; the RW pool field is read only there and in emit_metrics")
    sites = cm.all_aggregates(F, "klukai_types::agent::WriteConn")
    if not R.floor(len(sites), 1, "WriteConn.ctor", "constructors of WriteConn"):
        return
    for b, bb, i, place, k, ops, line in sites:
        root = F.root_fn(b)
        R.require(root.id == WRITE_INNER, "WriteConn.ctor@%s" % root.id, "%s:%d" % (b.file, line),
                  "WriteConn{..} built in %s" % b.id,
                  fail_msg="WriteConn constructed outside SplitPool::write_inner (in %s): a second mint of write connections" % b.id)
    # ADT shape: owns conn + drop guard + permit
    adt = F.adts.get("klukai_types::agent::WriteConn")
    if R.anchor(adt, "WriteConn.adt", "struct klukai_types::agent::WriteConn"):
        ftys = [f["ty"] for f in adt["variants"][0]["fields"]]
        fvis = [f["vis"] for f in adt["variants"][0]["fields"]]
        R.require(any("deadpool::managed::Object<" in t for t in ftys) and any(t.endswith("DropGuard") for t in ftys)
                  and any(t.endswith("OwnedSemaphorePermit") for t in ftys), "WriteConn.owns", "",
                  "WriteConn owns pooled conn + DropGuard + OwnedSemaphorePermit (release == drop)",
                  fail_msg="WriteConn no longer owns conn + DropGuard + OwnedSemaphorePermit: fields %s" % ftys)
        R.require(all("Restricted" in v for v in fvis), "WriteConn.private", "", "all WriteConn fields are private",
                  fail_msg="a WriteConn field is public (constructible/movable outside the module): %s" % fvis)
    # who reads SplitPoolInner.write
    readers = defaultdict(list)
    for b in F.bodies.values():
        if b.crate != "klukai_types":
            continue
        for bb, i, p, line in cm.field_reads(b, "write"):
            # base type must be SplitPoolInner
            fields = [x for x in p[1:] if isinstance(x, list) and x[0] == "f"]
            if not any(x[2] == "write" for x in fields):
                continue
            if not _projects_field_of(F, b, p, "klukai_types::agent::SplitPoolInner", "write"):
                continue
            readers[F.root_fn(b).id].append("%s:%d" % (b.file, line))
    allowed = {WRITE_INNER, "klukai_types::agent::SplitPool::emit_metrics",
               # derive(Debug): formats the pool handle, acquires nothing
               "<klukai_types::agent::SplitPoolInner as core::fmt::Debug>::fmt"}
    if R.floor(len(readers), 1, "rwpool.readers", "readers of SplitPoolInner.write"):
        for rid, where in readers.items():
            R.require(rid in allowed, "rwpool.reader@%s" % rid, where[0], "RW pool read in %s" % rid,
                      fail_msg="the RW pool (SplitPoolInner.write) is used outside write_inner/emit_metrics: in %s" % rid)
    # visibility of write_inner
    wi = F.get(WRITE_INNER)
    if R.anchor(wi, "write_inner", "fn " + WRITE_INNER):
        R.require("Restricted" in (wi.vis or ""), "write_inner.private", wi.where(), "write_inner is private",
                  fail_msg="write_inner is public: callers can bypass the priority API")


def _projects_field_of(F, body, place, adt_id, field):
    """does `place` project field `field` of a value of type adt_id (by walking the ADT field types)"""
    adt = F.adts.get(adt_id)
    if adt is None:
        return False
    idx = None
    for i, f in enumerate(adt["variants"][0]["fields"]):
        if f["name"] == field:
            idx = i
    for x in place[1:]:
        if isinstance(x, list) and x[0] == "f" and x[2] == field and x[1] == idx:
            return True
    return False


# ------------------------------------------------------------------------------------------------ C20.one
def one(ctx):
    F = ctx.F
    R = ctx.rule("C20.one", "K4", "RW pool has max_size 1 and the write semaphore has exactly 1 permit")
    cr = cm.main_coroutine(F, SPLITPOOL_CREATE)
    if not R.anchor(cr, "create", "async fn " + SPLITPOOL_CREATE):
        return
    news = [c for c in cr.calls if (c.t.get("r") or c.f) == SPLITPOOL_NEW]
    if not R.anchor(news, "create.new", "call of SplitPool::new in SplitPool::create"):
        return
    for c in news:
        # arg 3 = write pool
        for idx, name, want_ro in ((3, "write", False), (2, "read", True)):
            org = flow.origins(cr, op_place(c.args[idx]), at=(c.bb, "T"))
            calls = flow.origin_calls(org)
            ok = False
            detail = ""
            for oc in calls:
                if not oc.f.endswith("Config::create_pool_transform"):
                    continue
                # walk the builder chain back
                chain = _builder_chain(cr, oc)
                names = [x.name() for x in chain]
                ms = [x for x in chain if x.name() == "max_size"]
                ro = any(x.name() == "read_only" for x in chain)
                transform = op_const(oc.args[1]) or {}
                detail = "chain=%s transform=%s" % (names, transform.get("fn", "?").rsplit("::", 1)[-1])
                if name == "write":
                    ok = (len(ms) == 1 and ctx.F.const_value(op_const(ms[0].args[1])) == 1 and not ro)
                else:
                    ok = ro
            if name == "write":
                R.require(ok, "rwpool.max_size", c.where(), "pool handed to SplitPool::new as `write` is built with max_size(1) [%s]" % detail,
                          fail_msg="the RW pool is not built with max_size(1) (or is read-only) [%s]: more than one write connection can exist" % detail)
            else:
                R.require(ok, "ropool.read_only", c.where(), "pool handed to SplitPool::new as `read` is built with .read_only() [%s]" % detail,
                          fail_msg="the read pool is not built with .read_only() [%s]" % detail)
    # SplitPool::new stores its args into the like-named fields
    nb = F.get(SPLITPOOL_NEW)
    if R.anchor(nb, "new", "fn SplitPool::new"):
        aggs = cm.aggregates(nb, "klukai_types::agent::SplitPoolInner")
        if R.anchor(aggs, "new.inner", "SplitPoolInner{..} in SplitPool::new"):
            bb, i, place, k, ops, line = aggs[0]
            fields = k["fields"]
            argmap = {}
            for fname, op in zip(fields, ops):
                p = op_place(op)
                if p is None:
                    continue
                org = flow.origins(nb, p, at=(bb, i))
                argmap[fname] = sorted({o.local for o in org if o.kind == "arg"})
            # arg locals: 1 path, 2 write_sema, 3 read, 4 write
            R.require(argmap.get("write") == [4] and argmap.get("read") == [3] and argmap.get("write_sema") == [2],
                      "new.fieldmap", "%s:%d" % (nb.file, line), "SplitPool::new stores (write_sema, read, write) args into the like-named fields",
                      fail_msg="SplitPool::new mixes up its pool arguments: field<-arg map %s" % argmap)
    # every non-test caller of SplitPool::create passes a Semaphore::new(1)
    callers = []
    for b in F.bodies.values():
        for c in b.calls:
            if (c.t.get("r") or c.f) == SPLITPOOL_CREATE:
                callers.append((b, c))
    if R.floor(len(callers), 1, "create.callers", "callers of SplitPool::create"):
        for b, c in callers:
            extra = flow.compile_extra([(r"^alloc::sync::Arc::<T>::new$", (0,))])
            org = flow.origins(b, op_place(c.args[1]), at=(c.bb, "T"), extra_transparent=extra)
            sems = [oc for oc in flow.origin_calls(org) if oc.f.endswith("Semaphore::new")]
            others = [o for o in org if not (o.kind == "call" and o.call.f.endswith("Semaphore::new"))]
            ok = bool(sems) and not others and all(F.const_value(op_const(s.args[0])) == 1 for s in sems)
            R.require(ok, "write_sema.permits@%s" % F.root_fn(b).id, c.where(), "write_sema handed to SplitPool::create is Semaphore::new(1)",
                      fail_msg="write_sema handed to SplitPool::create is not provably Semaphore::new(1): origins %s" % sorted(map(repr, org)))


def _builder_chain(body, call):
    """follow arg0 back through builder-style calls: returns the list of calls from `call` back to the constructor"""
    chain = []
    cur = call
    seen = set()
    while cur is not None and cur.bb not in seen:
        seen.add(cur.bb)
        chain.append(cur)
        if not cur.args:
            break
        p = op_place(cur.args[0])
        if p is None:
            break
        org = flow.origins(body, p, at=(cur.bb, "T"))
        calls = flow.origin_calls(org)
        cur = calls[0] if len(calls) == 1 else None
    return chain


# ------------------------------------------------------------------------------------------------ C20.inner
def inner(ctx):
    F, G = ctx.F, ctx.G
    R = ctx.rule("C20.inner", "K2", "write_inner acquires queue slot -> drop-guard -> pooled conn -> permit in this dominance order, each under timeout_fut")
    wi = cm.main_coroutine(F, WRITE_INNER)
    if not R.anchor(wi, "write_inner", "coroutine of " + WRITE_INNER):
        return
    polls = [c for c in wi.calls if c.f == "core::future::future::Future::poll"]
    def find(pred):
        return [c for c in polls if pred(c.t.get("dty", ""))]
    send = find(lambda t: "SendError<tokio::sync::oneshot::Sender<tokio_util::sync::cancellation_token::guard::DropGuard>>" in t)
    recv = find(lambda t: "Result<tokio_util::sync::cancellation_token::guard::DropGuard, tokio::sync::oneshot::error::RecvError>" in t)
    conn = find(lambda t: "deadpool::managed::Object<" in t)
    perm = find(lambda t: "OwnedSemaphorePermit" in t)
    steps = [("queue-send", send), ("guard-recv", recv), ("conn-get", conn), ("permit-acquire", perm)]
    for name, lst in steps:
        R.require(len(lst) == 1, "step.%s" % name, lst[0].where() if lst else wi.where(), "exactly one await of %s" % name,
                  fail_msg="expected exactly one await for step %s in write_inner, found %d" % (name, len(lst)))
    if not all(len(l) == 1 for _, l in steps):
        return
    seq = [l[0] for _, l in steps]
    # each await's Ready edge dominates the next await
    for (n1, a), (n2, b) in zip(steps, steps[1:]):
        a, b = a[0], b[0]
        ready = _ready_edge(wi, a)
        R.require(ready is not None and flow.vedge_dominates(wi, ready, b.bb), "order.%s<%s" % (n1, n2), b.where(),
                  "%s completes (Poll::Ready) before %s starts" % (n1, n2),
                  fail_msg="%s is not dominated by completion of %s: acquisition order in write_inner changed" % (n2, n1))
    # construction dominated by the last
    aggs = cm.aggregates(wi, "klukai_types::agent::WriteConn")
    if R.anchor(aggs, "ctor", "WriteConn{..} in write_inner"):
        bb = aggs[0][0]
        ready = _ready_edge(wi, seq[-1])
        R.require(ready is not None and wi.edge_dominates(ready, bb), "order.permit<ctor", "%s:%d" % (wi.file, aggs[0][5]),
                  "WriteConn is built only after the permit was acquired",
                  fail_msg="WriteConn can be built without holding the permit")
        # fields are rooted in the three acquisitions
        k, ops = aggs[0][3], aggs[0][4]
        want = {"conn": seq[2], "_drop_guard": seq[1], "_permit": seq[3]}
        for fname, op in zip(k["fields"], ops):
            if fname not in want:
                continue
            org = flow.origins(wi, op_place(op), at=(aggs[0][0], aggs[0][1]))
            calls = {oc.bb for oc in flow.origin_calls(org)}
            # origin is the timeout_fut call whose future is polled at the expected await
            exp = _polled_future_origin(wi, want[fname])
            R.require(bool(calls) and calls <= exp, "ctor.field.%s" % fname, "%s:%d" % (wi.file, aggs[0][5]),
                      "WriteConn.%s is the value acquired by the matching await" % fname,
                      fail_msg="WriteConn.%s does not come from the expected acquisition (origins bb%s, expected bb%s)" % (fname, sorted(calls), sorted(exp)))
    # each awaited future comes from timeout_fut
    for name, lst in steps:
        c = lst[0]
        exp = _polled_future_calls(wi, c)
        R.require(any(x.f.endswith("agent::timeout_fut") for x in exp), "timeout.%s" % name, c.where(),
                  "%s is awaited through timeout_fut" % name,
                  fail_msg="%s is awaited without timeout_fut: a stuck holder blocks the queue forever" % name)
    # no mem::forget / leak of acquired resources
    bad = [c for c in wi.calls if re.search(r"core::mem::forget|ManuallyDrop::new|Box::<T>::leak|Arc::<T>::into_raw", c.f)]
    R.require(not bad, "no-forget", bad[0].where() if bad else wi.where(), "nothing acquired is leaked (no mem::forget / leak)",
              fail_msg="write_inner leaks an acquired resource: %s" % bad)


def _ready_edge(body, poll_call):
    """edge taken when the polled future is Ready (discriminant 0 of Poll)"""
    nxt = body.term(poll_call.bb).get("tgt")
    sw = flow.variant_edges(body, poll_call.dest)
    for bb, m, other in sw:
        if 0 in m:
            return (bb, m[0])
    return None


def _polled_future_calls(body, poll_call):
    extra = None
    org = flow.origins(body, op_place(poll_call.args[0]), at=(poll_call.bb, "T"))
    return flow.origin_calls(org)


def _polled_future_origin(body, poll_call):
    return {c.bb for c in _polled_future_calls(body, poll_call)}


# ------------------------------------------------------------------------------------------------ C20.prio
def prio(ctx):
    F, G = ctx.F, ctx.G
    R = ctx.rule("C20.prio", "K6", "dispatcher: biased select over (priority, normal, low) receivers in that order, one grant at a time; write_* use the like-ranked sender")
    nb = F.get(SPLITPOOL_NEW)
    if not R.anchor(nb, "new", "fn SplitPool::new"):
        return
    # 1. channel pairs: each `bounded` call yields (tx, rx)
    bcalls = [c for c in nb.calls if c.f.endswith("channel::bounded")]
    if not R.require(len(bcalls) == 3, "channels", nb.where(), "three request queues are created",
                     fail_msg="expected 3 request queues in SplitPool::new, found %d" % len(bcalls)):
        return
    # 2. the dispatcher coroutine and what its upvars are
    disp = [k for k in F.children.get(nb.id, []) if k.kind == "coroutine"]
    if not R.anchor(disp, "dispatcher", "async block spawned in SplitPool::new"):
        return
    disp = disp[0]
    # coroutine aggregate in parent: upvar name -> originating bounded call
    up_origin = {}
    for bb, bl in enumerate(nb.blocks):
        for i, s in enumerate(bl["s"]):
            if s[0] == "A" and s[2][0] == "agg" and isinstance(s[2][1], dict) and s[2][1].get("coroutine") == disp.id:
                for fname, op in zip(s[2][1]["fields"], s[2][2]):
                    org = flow.origins(nb, op_place(op), at=(bb, i))
                    up_origin[fname] = {oc.bb for oc in flow.origin_calls(org)}
    # field of SplitPoolInner -> originating bounded call
    field_origin = {}
    aggs = cm.aggregates(nb, "klukai_types::agent::SplitPoolInner")
    if R.anchor(aggs, "inner", "SplitPoolInner{..}"):
        bb, i, place, k, ops, line = aggs[0]
        for fname, op in zip(k["fields"], ops):
            p = op_place(op)
            if p is not None:
                org = flow.origins(nb, p, at=(bb, i))
                field_origin[fname] = {oc.bb for oc in flow.origin_calls(org)}
    # 3. select: the futures tuple order in the dispatcher
    sel_order = None
    for bb, bl in enumerate(disp.blocks):
        for i, s in enumerate(bl["s"]):
            if s[0] == "A" and s[2][0] == "agg" and s[2][1] == "tuple" and len(s[2][2]) == 3:
                ups = []
                for op in s[2][2]:
                    org = flow.origins(disp, op_place(op), at=(bb, i))
                    recvs = [oc for oc in flow.origin_calls(org) if oc.f.endswith("CorroReceiver::<T>::recv")]
                    if len(recvs) != 1:
                        ups = None
                        break
                    o2 = flow.origins(disp, op_place(recvs[0].args[0]), at=(recvs[0].bb, "T"))
                    names = {o.field_names()[0] for o in o2 if o.kind == "arg" and o.local == 1 and o.field_names()}
                    if len(names) != 1:
                        ups = None
                        break
                    ups.append(names.pop())
                if ups:
                    sel_order = ups
                    break
        if sel_order:
            break
    if not R.anchor(sel_order, "select.futures", "the (recv, recv, recv) future tuple of the dispatcher's select!"):
        return
    # rank of each bounded call = index of its rx in the select
    rank = {}
    for idx, up in enumerate(sel_order):
        for bbcall in up_origin.get(up, ()):
            rank[bbcall] = idx
    # 4. write_priority/normal/low -> field -> bounded call -> rank
    want = {"write_priority": 0, "write_normal": 1, "write_low": 2}
    for api, r in want.items():
        cos = cm.coroutines_of(F, "klukai_types::agent::SplitPool::" + api)
        if not R.anchor(cos, api, "async fn SplitPool::" + api):
            continue
        wic = [(co, c) for co in cos for c in co.calls if (c.t.get("r") or c.f) == WRITE_INNER]
        if not R.anchor(wic, api + ".call", "call of write_inner in " + api):
            continue
        co, wic = wic[0][0], [wic[0][1]]
        org = flow.origins(co, op_place(wic[0].args[1]), at=(wic[0].bb, "T"))
        fnames = set()
        for o in org:
            if o.kind == "arg":
                fn = [x for x in o.field_names() if x.endswith("_tx")]
                fnames.update(fn)
        ranks = set()
        for fn in fnames:
            for bbcall in field_origin.get(fn, ()):
                if bbcall in rank:
                    ranks.add(rank[bbcall])
        R.require(ranks == {r}, "rank.%s" % api, wic[0].where(),
                  "%s enqueues on the queue polled at select position %d (sender field %s)" % (api, r, sorted(fnames)),
                  fail_msg="%s enqueues on the queue polled at select position %s (sender field %s), expected position %d: priority inversion"
                           % (api, sorted(ranks), sorted(fnames), r))
    # 5. biased: the select's poll closure must not randomise its start branch
    pollcl = [k for k in F.descendants(disp) if k.kind == "closure"]
    rnd = [c for b in pollcl + [disp] for c in b.calls if "thread_rng_n" in c.f]
    R.require(bool(pollcl) and not rnd, "select.biased", disp.where(), "the dispatcher's select! is `biased` (no randomised start branch)",
              fail_msg="the dispatcher's select! is not biased (thread_rng_n is called): priority order is random")
    # 6. one grant at a time: wait_conn_drop(..).await completes before the loop repeats
    wcd = [c for c in disp.calls if c.f == "core::future::future::Future::poll" and "wait_conn_drop" in (c.t.get("r") or "")]
    if R.anchor(wcd, "wait_conn_drop", "await of wait_conn_drop in the dispatcher loop"):
        ready = _ready_edge(disp, wcd[0])
        back = disp.back_edges()
        sel_polls = [c for c in disp.calls if c.f == "core::future::future::Future::poll" and "PollFn" in c.fi]
        ok = ready is not None and sel_polls
        if ok:
            # every path from the select's Ready back to the select passes the wait_conn_drop Ready edge
            sp = sel_polls[0]
            sready = _ready_edge(disp, sp)
            reach = disp.reachable(sready[1], no_edges=(ready,))
            ok = sp.bb not in reach
        R.require(ok, "one-at-a-time", wcd[0].where(), "the dispatcher grants the next request only after the previous holder dropped its guard",
                  fail_msg="the dispatcher loop can reach the next select without awaiting wait_conn_drop to completion: two writers can hold the connection slot")
    # wait_conn_drop sends the guard and waits for its cancellation
    w = cm.main_coroutine(F, "klukai_types::agent::wait_conn_drop")
    if R.anchor(w, "wait_conn_drop.body", "async fn wait_conn_drop"):
        sends = [c for c in w.calls if c.f.endswith("oneshot::Sender::<T>::send")]
        canc = [c for b in F.family(w) for c in b.calls if c.f.endswith("CancellationToken::cancelled")]
        R.require(bool(sends) and bool(canc), "wait_conn_drop.shape", w.where(), "wait_conn_drop hands out a DropGuard and waits for `cancelled()`",
                  fail_msg="wait_conn_drop no longer waits for the holder's DropGuard")


# ------------------------------------------------------------------------------------------------ C20.order / self
ALLOWED_CORE = {("conn", "bookie"), ("conn", "booked"), ("bookie", "booked")}
CORE = {"conn", "bookie", "booked"}


def order(ctx, bodies=None, R=None, R2=None):
    F, G = ctx.F, ctx.G
    R = R or ctx.rule("C20.order", "K3", "global lock-order graph (held X while acquiring Y, through awaits and callees) is acyclic and conforms to conn -> bookie -> booked")
    R2 = R2 or ctx.rule("C20.self", "K3", "no body acquires a second guard of the same lock class while holding one (per-actor locks have no global order)")
    edges = G.lock_edges(bodies)
    wi_ids = {b.id for b in cm.coroutines_of(F, WRITE_INNER)}
    agg = defaultdict(list)
    for e in edges:
        x, y = e["x"], e["y"]
        if e["body"].id in wi_ids:
            # inside write_inner the pooled object *is* the write connection being assembled
            x = "conn.parts" if x in ("poolconn:crconn", "permit") else x
            y = "conn.parts" if y in ("poolconn:crconn", "permit") else y
        if x in INTERNAL or y in INTERNAL:
            # implementation of the counted lock wrapper (generic T); judged at the concrete callers
            continue
        agg[(x, y)].append(e)
    n_sites = sum(len(v) for v in agg.values())
    if bodies is None:
        if not R.floor(len([k for k in agg if k[0] in CORE and k[1] in CORE]), 3, "core-edges", "lock-order edges among {conn,bookie,booked}"):
            return
    # self edges
    for (x, y), es in sorted(agg.items()):
        if x == y:
            if x == "conn.parts":
                continue
            for e in _dedupe(es):
                R2.fail("%s@%s" % (x, F.root_fn(e["body"]).id), e["call"].where(),
                        "a second `%s` guard is acquired while one is held (in %s%s)" % (x, e["body"].id, _via(e)))
    if not any(x == y for (x, y) in agg):
        R2.ok("no-self-nesting", "", "no lock class is acquired while a guard of the same class is held (%d edge sites inspected)" % n_sites)
    # conformance within core
    for (x, y), es in sorted(agg.items()):
        if x == y:
            continue
        if x in CORE and y in CORE:
            for e in _dedupe(es):
                R.require((x, y) in ALLOWED_CORE, "%s->%s@%s" % (x, y, F.root_fn(e["body"]).id), e["call"].where(),
                          "%s acquired while holding %s in %s%s" % (y, x, e["body"].id, _via(e)),
                          fail_msg="lock order violation: %s acquired while holding %s in %s%s (documented order is conn -> bookie -> booked)"
                                   % (y, x, e["body"].id, _via(e)))
        elif y == "conn":
            for e in _dedupe(es):
                R.fail("%s->conn@%s" % (x, F.root_fn(e["body"]).id), e["call"].where(),
                       "the write connection is requested while holding `%s` in %s%s: the holder of the connection may be waiting for that lock" % (x, e["body"].id, _via(e)))
    # acyclicity over all classes
    nodes = set()
    adj = defaultdict(set)
    for (x, y) in agg:
        if x != y:
            adj[x].add(y)
            nodes.update((x, y))
    sccs = _sccs(nodes, adj)
    cyc = [s for s in sccs if len(s) > 1]
    for s in cyc:
        ex = []
        for (x, y), es in agg.items():
            if x in s and y in s and x != y:
                e = es[0]
                ex.append("%s->%s at %s in %s" % (x, y, e["call"].where(), e["body"].id))
        R.fail("cycle:" + "|".join(sorted(s)), "", "lock-order cycle among %s: %s" % (sorted(s), "; ".join(sorted(ex))))
    if not cyc:
        R.ok("acyclic", "", "lock-order graph acyclic: %d classes, %d distinct edges, %d edge sites" % (len(nodes), len([k for k in agg if k[0] != k[1]]), n_sites))
    ctx.notes.append({"lock_order_edges": sorted("%s->%s (%d sites)" % (x, y, len(es)) for (x, y), es in agg.items())})


def _via(e):
    return (" via " + e["via"]) if e["via"] else ""


def _dedupe(es):
    seen = set()
    out = []
    for e in es:
        k = (e["body"].id, e["bb"])
        if k not in seen:
            seen.add(k)
            out.append(e)
    # one per root function is enough for reporting
    byroot = {}
    for e in out:
        byroot.setdefault(e["body"].id.split("::{closure")[0], e)
    return list(byroot.values())


def _sccs(nodes, adj):
    index = {}
    low = {}
    st = []
    on = set()
    out = []
    idx = [0]

    def strong(v):
        work = [(v, iter(adj.get(v, ())))]
        index[v] = low[v] = idx[0]
        idx[0] += 1
        st.append(v)
        on.add(v)
        while work:
            v, it = work[-1]
            adv = False
            for w in it:
                if w not in index:
                    index[w] = low[w] = idx[0]
                    idx[0] += 1
                    st.append(w)
                    on.add(w)
                    work.append((w, iter(adj.get(w, ()))))
                    adv = True
                    break
                elif w in on:
                    low[v] = min(low[v], index[w])
            if adv:
                continue
            work.pop()
            if work:
                u = work[-1][0]
                low[u] = min(low[u], low[v])
            if low[v] == index[v]:
                comp = set()
                while True:
                    w = st.pop()
                    on.discard(w)
                    comp.add(w)
                    if w == v:
                        break
                out.append(comp)

    for v in sorted(nodes):
        if v not in index:
            strong(v)
    return out


# ------------------------------------------------------------------------------------------------ C20.await
def await_(ctx, bodies=None, R=None):
    F, G = ctx.F, ctx.G
    R = R or ctx.rule("C20.await", "K3", "no parking_lot/std guard is held across an await point")
    n = 0
    bad = 0
    for b in (bodies if bodies is not None else F.bodies.values()):
        if b.kind != "coroutine":
            continue
        for bb in b.live_blocks():
            if b.term(bb)["t"] != "yield":
                continue
            n += 1
            held = [h for h in G.held_classes_at(b, bb) if h[0].startswith(graph.SYNC_GUARD_PREFIX)]
            for cls, mode, item in held:
                bad += 1
                R.fail("%s@%s" % (cls, F.root_fn(b).id), b.where(bb),
                       "sync guard `%s` is held across an await in %s: the task can be suspended while blocking other threads on that lock" % (cls, b.id))
    if not bad:
        R.ok("no-sync-guard-across-await", "", "%d await points inspected, none with a parking_lot/std guard live" % n)
    if bodies is None:
        R.floor(n, 100, "yields", "await points analysed")


# ------------------------------------------------------------------------------------------------ C20.block
def block(ctx, bodies=None, R=None):
    F, G = ctx.F, ctx.G
    R = R or ctx.rule("C20.block", "K8", "blocking lock/connection acquisition APIs are only called from blocking contexts (block_in_place / spawn_blocking / threads), never from a future's poll")
    ctxs = G.contexts
    n = 0
    for b in (bodies if bodies is not None else F.bodies.values()):
        for c in b.calls:
            if c.noise or not BLOCKING_LOCK_API.search(c.f):
                continue
            n += 1
            cs = ctxs.get(b.id, set())
            R.require("async" not in cs, "%s@%s" % (c.name(), F.root_fn(b).id), c.where(),
                      "%s called in %s context (%s)" % (c.f, "/".join(sorted(cs)) or "unreached", b.id),
                      fail_msg="blocking acquisition %s is reachable in async context (%s): it blocks a runtime worker and can deadlock the holder's wake-up" % (c.f, b.id))
    if bodies is None:
        R.floor(n, 6, "sites", "blocking acquisition call sites")


# ------------------------------------------------------------------------------------------------ C20.guard
def guard(ctx):
    """guards are never stashed: no struct field / static of a core guard type (other than WriteConn's own parts)"""
    F = ctx.F
    R = ctx.rule("C20.guard", "K1", "no workspace struct stores a conn/bookie/booked guard (a stored guard escapes the scope-based order analysis)")
    n = 0
    for aid, adt in F.adts.items():
        for v in adt["variants"]:
            for f in v["fields"]:
                gs = graph.find_guards(f["ty"])
                n += 1
                for g in gs:
                    if g[0] in ("conn", "bookie", "booked"):
                        R.fail("%s.%s" % (aid, f["name"]), "", "field %s.%s stores a `%s` guard" % (aid, f["name"], g[0]))
    R.ok("adt-scan", "", "%d workspace ADT fields scanned, none stores a core guard" % n, nontrivial=n > 0)


# ------------------------------------------------------------------------------------------------ positive controls
def controls(cctx):
    """run the same rule code on /verif/fixtures; returns the list of controls that failed to fire (or misfired)"""
    silent = []
    R, R2 = cctx.rule("C20.order", "K3", "control"), cctx.rule("C20.self", "K3", "control")
    order(cctx, bodies=list(cctx.F.bodies.values()), R=R, R2=R2)
    fails = [o for o in R.obligations if not o["ok"]]
    if not any(o["instance"].startswith("cycle:") and "std:A" in o["instance"] and "std:B" in o["instance"] for o in fails):
        silent.append("lock-order cycle std:A<->std:B (bad_order_ab/bad_order_ba)")
    if any("good_order_scoped" in o["msg"] for o in fails):
        silent.append("misfire on good_order_scoped")
    if not any("bad_self_nest" in o["instance"] for o in R2.obligations if not o["ok"]):
        silent.append("self-nesting std:A (bad_self_nest)")
    R3 = cctx.rule("C20.await", "K3", "control")
    await_(cctx, bodies=list(cctx.F.bodies.values()), R=R3)
    f3 = [o for o in R3.obligations if not o["ok"]]
    if not any("bad_guard_across_await" in o["instance"] for o in f3):
        silent.append("guard across await (bad_guard_across_await)")
    if any("good_guard_dropped_before_await" in o["instance"] for o in f3):
        silent.append("misfire on good_guard_dropped_before_await")
    return silent
