"""C08 — changeset chunks tile the sequence range exactly (inductive-step facts of the cursor discipline).

The tiling theorem follows by induction from three facts about ChunkedChanges::next that are visible in its shape:
(i) every yielded range starts at the cursor field; (ii) a non-final yield ends at the last pushed seq and advances the
cursor to exactly that + 1 (after having read it); (iii) the final yield ends at last_seq and latches `done`.
The checker decides (i)-(iii) and the stride/length agreement of chunk_range; it evaluates no input."""
import re

from corrolint import flow
from corrolint.facts import op_place, op_const, op_local
from . import common as cm

CC = "klukai_types::change::ChunkedChanges"
NEXT = "<klukai_types::change::ChunkedChanges<I> as core::iter::traits::iterator::Iterator>::next"


def run(ctx):
    ctx.trust("the row source yields strictly increasing seqs within [start, last] (premise of the theorem, not decided)", "Peekable/Vec semantics")
    ctx.assume("no concrete input is evaluated; inputs with holes ending before `last` are covered by the final-yield fact (range ends at last_seq regardless)")
    cursor(ctx)
    adapt(ctx)
    stride(ctx)


def _field_of_self(b, place, at, stop=None):
    """field names of `self` a value is read from (following receivers)"""
    names = set()
    consts = set()
    calls = []
    work = [(place, at, 5)]
    seen = set()
    while work:
        pl, at_, h = work.pop()
        if pl is None:
            continue
        for o in flow.origins(b, pl, at=at_, stop=stop, follow_partial=False):
            if o.kind == "arg" and o.local == 1:
                names |= set(o.field_names()[:1])
            elif o.kind == "const" and o.const and "v" in o.const:
                consts.add(o.const["v"])
            elif o.kind == "call":
                calls.append(o.call)
                if h > 0 and o.call.bb not in seen:
                    seen.add(o.call.bb)
                    for a in o.call.args[:2]:
                        if op_place(a) is not None:
                            work.append((op_place(a), (o.call.bb, "T"), h - 1))
                        elif op_const(a) is not None and "v" in op_const(a):
                            consts.add(op_const(a)["v"])
    return names, consts, calls


def cursor(ctx):
    F = ctx.F
    R = ctx.rule("C08.cursor", "K4+K2", "ChunkedChanges::next: yields start at the cursor; a non-final yield ends at the last pushed seq and moves the cursor to it + 1; the final yield ends at last_seq and latches done")
    b = F.get(NEXT)
    if not R.anchor(b, "next", "fn ChunkedChanges::next"):
        return
    news = [c for c in b.calls if c.f == "core::ops::range::RangeInclusive::<Idx>::new" and "CrsqlSeq" in c.self_ty]
    if not R.require(len(news) == 2, "two-yields", b.where(), "two range constructions (non-final and final yield)", fail_msg="expected 2 RangeInclusive<CrsqlSeq> constructions in next(), found %d" % len(news)):
        return
    stopnew = lambda call: False
    ends = {}
    for c in news:
        n0, k0, _ = _field_of_self(b, op_place(c.args[0]), (c.bb, "T"))
        n1, k1, _ = _field_of_self(b, op_place(c.args[1]), (c.bb, "T"))
        kind = "final" if n1 == {"last_seq"} else ("step" if n1 == {"last_pushed_seq"} else "?")
        ends[kind] = c
        R.require(n0 == {"last_start_seq"} and not k0, "start-at-cursor:" + kind, c.where(), "the %s yield's range starts at self.last_start_seq" % kind,
                  fail_msg="the %s yield's range starts at %s instead of the cursor (self.last_start_seq): chunks overlap or leave a hole" % (kind, sorted(n0) or sorted(k0)))
        R.require(kind in ("final", "step"), "end-field:" + (kind if kind != "?" else "x%d" % news.index(c)), c.where(), "the yield ends at %s" % sorted(n1),
                  fail_msg="a yielded range ends at %s (expected last_pushed_seq for a non-final, last_seq for the final yield)" % (sorted(n1) or sorted(k1)))
    if set(ends) != {"final", "step"}:
        R.fail("yield-kinds", b.where(), "could not identify one non-final (ends at last_pushed_seq) and one final (ends at last_seq) yield: %s" % sorted(ends))
        return
    step, final = ends["step"], ends["final"]
    # cursor writes
    writes = [x for x in cm.field_mutation_sites(F, CC, "last_start_seq", [b]) if x[2].startswith("assign")]
    if R.require(len(writes) == 1, "one-cursor-write", b.where(), "the cursor is advanced at exactly one place", fail_msg="self.last_start_seq is assigned at %d places in next()" % len(writes)):
        wb = writes[0][1]
        # value = last_pushed_seq + 1
        val = None
        for i, s in enumerate(b.blocks[wb]["s"]):
            if s[0] == "A" and any(isinstance(p, list) and p[0] == "f" and p[2] == "last_start_seq" for p in s[1][1:]):
                val = (op_place(s[2][1]) if s[2][0] == "use" else None, (wb, i))
        t = b.term(wb)
        addcall = None
        if val is None and t["t"] == "call" and any(isinstance(p, list) and p[0] == "f" and p[2] == "last_start_seq" for p in t["dest"][1:]):
            from corrolint.facts import Call
            addcall = Call(b, wb, t)
        if val is not None and val[0] is not None:
            for o in flow.origins(b, val[0], at=val[1]):
                if o.kind == "call" and o.call.name() == "add":
                    addcall = o.call
        if R.anchor(addcall, "cursor-add", "the `+` producing the new cursor"):
            n0, _, _ = _field_of_self(b, op_place(addcall.args[0]), (addcall.bb, "T"))
            k = op_const(addcall.args[1])
            R.require(n0 == {"last_pushed_seq"} and k is not None and k.get("v") == 1, "cursor=last_pushed+1", addcall.where(), "cursor := last_pushed_seq + 1",
                      fail_msg="the cursor is advanced to %s + %s instead of last_pushed_seq + 1" % (sorted(n0), (k or {}).get("v")))
        # the write is on the path of the non-final yield only, after the cursor was read for that yield
        R.require(flow.vdominates(b, wb, step.bb) and _only_via_loop(b, wb, final.bb, step.bb), "write-on-step-path", b.where(wb),
                  "the cursor advance belongs to the non-final yield")
        # the read of the cursor used for the step yield precedes the write
        reads = []
        for bb in b.live_blocks():
            for i, s in enumerate(b.blocks[bb]["s"]):
                if s[0] == "A" and len(s[1]) == 1 and s[2][0] == "use" and op_place(s[2][1]) is not None and any(isinstance(p, list) and p[0] == "f" and p[2] == "last_start_seq" for p in op_place(s[2][1])[1:]):
                    reads.append((bb, i, s[1][0]))
        org_locals = {o.local for o in flow.origins(b, op_place(step.args[0]), at=(step.bb, "T"))} if op_place(step.args[0]) else set()
        pre = [r for r in reads if b.dominates(r[0], wb) and r[0] != wb or (r[0] == wb)]
        R.require(any(b.dominates(r[0], wb) for r in reads if b.dominates(r[0], step.bb)), "read-before-write", b.where(wb), "the yielded start is read from the cursor before the cursor is advanced",
                  fail_msg="the non-final yield reads the cursor after it was advanced: the yielded range starts one past its first change")
    # final: done latched
    dw = [x for x in cm.field_mutation_sites(F, CC, "done", [b]) if x[2].startswith("assign")]
    R.require(len(dw) == 1 and b.dominates(dw[0][1], final.bb), "done-latched", final.where(), "self.done = true dominates the final yield", fail_msg="the final yield is not preceded by `self.done = true` (%d writes)" % len(dw))
    # done => None before touching the iterator
    it = [c for c in b.calls if c.f.endswith("Peekable<I> as core::iter::traits::iterator::Iterator>::next") or (c.name() == "next" and "Peekable" in c.self_ty)]
    first_sw = None
    for bb in sorted(b.live_blocks()):
        t = b.term(bb)
        if t["t"] == "sw":
            p = op_place(t["d"])
            src = None
            if p is not None:
                for o in flow.origins(b, p, at=(bb, "T")):
                    if o.kind == "arg" and o.field_names()[:1] == ("done",):
                        src = True
            if src:
                first_sw = bb
                break
    if R.anchor(first_sw, "done-test", "test of self.done at entry") and R.anchor(it, "iter.next", "self.iter.next()"):
        e = flow.bool_edges(b, first_sw)
        R.require(e is not None and it[0].bb not in b.reachable(e[0]) and it[0].bb in b.reachable(e[1]), "done-returns-none", b.where(first_sw), "once done, next() returns without touching the row iterator",
                  fail_msg="after the final yield next() can still pull rows (done not honoured)")
    # member: the pushed change is the one whose seq was recorded
    push = [c for c in b.calls if c.f.endswith("Vec::<T, A>::push") and "Change" in c.self_ty]
    lw = [x for x in cm.field_mutation_sites(F, CC, "last_pushed_seq", [b]) if x[2].startswith("assign")]
    if R.anchor(push, "push", "self.changes.push(change)") and R.require(len(lw) == 1, "one-last_pushed-write", b.where(), "last_pushed_seq assigned once", fail_msg="last_pushed_seq assigned %d times" % len(lw)):
        pb = push[0]
        po = {(o.kind, o.local, o.path_names()) for o in cm.operand_origins(b, pb, 1)}
        wbb = lw[0][1]
        wo = set()
        for i, s in enumerate(b.blocks[wbb]["s"]):
            if s[0] == "A" and any(isinstance(p, list) and p[0] == "f" and p[2] == "last_pushed_seq" for p in s[1][1:]) and s[2][0] == "use" and op_place(s[2][1]) is not None:
                for o in flow.origins(b, op_place(s[2][1]), at=(wbb, i)):
                    wo.add((o.kind, o.local, o.path_names()))
        ok = bool(po) and bool(wo) and all(w[2] and w[2][-1] == "seq" and (w[0], w[1], w[2][:-1]) in po for w in wo)
        R.require(ok, "pushed-is-recorded", pb.where(), "last_pushed_seq is the `.seq` of the very change that is pushed",
                  fail_msg="last_pushed_seq (%s) is not the seq of the pushed change (%s): a chunk's range end would not match its last change" % (sorted(wo), sorted(po)))
        R.require(b.dominates(wbb, pb.bb) or b.dominates(pb.bb, wbb), "same-path", pb.where(), "recording the seq and pushing the change are on the same path")
        # break-early on reaching last_seq: compare last_pushed_seq == last_seq
        eqs = [c for c in b.calls if c.f in ("core::cmp::PartialEq::eq",) and "CrsqlSeq" in c.self_ty]
        R.require(bool(eqs), "last-seq-break", b.where(), "reaching last_seq ends the chunk (compare with self.last_seq)")

    # every change appears in some changeset: the final yield (which latches done and abandons the row source) is entered only
    # when the source is exhausted (iter.next() == None / peek().is_none()) or the change just pushed carries last_seq
    if it and len(dw) == 1:
        itn = it[0]
        allowed, why = [], []
        for sw, m, other in flow.variant_edges(b, itn.dest):
            allowed.append((sw, m.get(0, other)))
            why.append("iter.next()==None")
        for c in b.calls:
            if c.name() == "is_none" and "Option<&" in c.self_ty:
                src = flow.origins(b, op_place(c.args[0]), at=(c.bb, "T"), stop=lambda cc: cc.name() == "peek")
                if any(o.kind == "call" and o.call.name() == "peek" and "Peekable" in o.call.self_ty for o in src):
                    te, fe = flow.true_false_targets(b, c)
                    allowed += te
                    why.append("peek().is_none()")
        for c in b.calls:
            if c.f == "core::cmp::PartialEq::eq" and "CrsqlSeq" in c.self_ty:
                n0, _, _ = _field_of_self(b, op_place(c.args[0]), (c.bb, "T"))
                n1, _, _ = _field_of_self(b, op_place(c.args[1]), (c.bb, "T"))
                if {frozenset(n0), frozenset(n1)} == {frozenset({"last_pushed_seq"}), frozenset({"last_seq"})}:
                    te, fe = flow.true_false_targets(b, c)
                    allowed += te
                    why.append("last_pushed_seq==last_seq")
        leak = dw[0][1] in flow.variant_reach(b, itn.bb, no_edges=allowed)
        R.require(bool(allowed) and not leak, "final-only-when-exhausted", b.where(dw[0][1]),
                  "the final yield is entered only through: %s" % ", ".join(sorted(set(why))),
                  fail_msg="the final yield (done = true) can be entered while the row source may still hold changes: some path from self.iter.next() to `self.done = true` "
                           "avoids every exhaustion test (%s); the remaining rows would appear in no changeset although the final range covers their seqs" % ", ".join(sorted(set(why))))


def _only_via_loop(b, wb, final_bb, step_bb):
    # from the write, the final yield is reachable only by first returning (step yield); since step returns, plain reachability from wb to final must be empty
    return final_bb not in flow.variant_reach(b, wb)


def adapt(ctx):
    F = ctx.F
    R = ctx.rule("C08.adapt", "K1", "changing the size limit between chunks cannot move the cursor: set_max_buf_size writes only max_buf_size, which is only compared")
    sb = F.get(CC + "::<I>::set_max_buf_size")
    if not R.anchor(sb, "set_max_buf_size", "fn set_max_buf_size"):
        return
    written = set()
    for f in ("iter", "changes", "last_pushed_seq", "last_start_seq", "last_seq", "max_buf_size", "buffered_size", "done"):
        if cm.field_mutation_sites(F, CC, f, [sb]):
            written.add(f)
    R.require(written == {"max_buf_size"}, "writes-only-limit", sb.where(), "set_max_buf_size assigns only max_buf_size", fail_msg="set_max_buf_size assigns %s" % sorted(written))
    nb = F.get(NEXT)
    if nb is not None:
        # max_buf_size is read only as an operand of a comparison
        bad = []
        for bb in nb.live_blocks():
            for i, s in enumerate(nb.blocks[bb]["s"]):
                if s[0] == "A" and s[2][0] == "use" and op_place(s[2][1]) is not None and any(isinstance(p, list) and p[0] == "f" and p[2] == "max_buf_size" for p in op_place(s[2][1])[1:]):
                    l = s[1][0]
                    uses = []
                    for bb2 in nb.live_blocks():
                        for s2 in nb.blocks[bb2]["s"]:
                            if s2[0] == "A" and any(op_local(o) == l for o in __import__("corrolint.facts", fromlist=["x"]).rvalue_operands(s2[2])):
                                uses.append(s2[2][0] + ":" + str(s2[2][1]))
                    if any(not u.startswith("bin:G") and not u.startswith("bin:L") for u in uses):
                        bad.append(uses)
        R.require(not bad, "limit-only-compared", nb.where(), "max_buf_size is only an operand of a size comparison in next()", fail_msg="max_buf_size flows into %s" % bad)
    mw = {F.root_fn(x[0]).id for x in cm.field_mutation_sites(F, CC, "max_buf_size")}
    R.require(mw <= {CC + "::<I>::set_max_buf_size", CC + "::<I>::new"}, "limit-writers", "", "max_buf_size is written only by new / set_max_buf_size", fail_msg="max_buf_size written in %s" % sorted(mw))


def stride(ctx):
    F = ctx.F
    R = ctx.rule("C08.stride", "K6", "chunk_range: stride and block length derive from the same chunk_size, the block end is clamped to the range end, iteration starts from the requested range")
    b = F.get("klukai_agent::api::peer::chunk_range")
    if not R.anchor(b, "chunk_range", "fn chunk_range"):
        return
    sb = [c for c in b.calls if c.name() == "step_by"]
    cl = [x for x in F.family(b) if x.kind == "closure"]
    if not (R.anchor(sb, "step_by", "step_by call") and R.anchor(cl, "closure", "the mapping closure")):
        return
    so = cm.operand_origins(b, sb[0], 1)
    R.require(bool(so) and all(o.kind == "arg" and o.local == 2 for o in so), "stride=chunk_size", sb[0].where(), "the stride is the chunk_size argument", fail_msg="step_by stride is %s" % cm.origin_summary(so))
    ro = cm.deep_names(b, op_place(sb[0].args[0]), (sb[0].bb, "T"))
    o0 = cm.operand_origins(b, sb[0], 0)
    R.require(any(o.kind == "arg" and o.local == 1 for o in o0) or "clone" in ro[1], "iterates-range", sb[0].where(), "iteration covers the requested range")
    x = cl[0]
    adds = [c for c in x.calls if c.name() == "add"]
    mins = [c for c in x.calls if c.name() == "min"]
    if R.anchor(adds, "add", "block_start + len") and R.anchor(mins, "min", ".min(range.end())"):
        a = adds[0]
        ao = cm.origin_summary(cm.operand_origins(x, a, 1))
        R.require(any("chunk_size" in s for s in ao), "len=chunk_size", a.where(), "the block length is the same chunk_size (%s)" % ao, fail_msg="block length derives from %s, not from the stride's chunk_size: sub-ranges leave holes or overrun" % ao)
        a0 = cm.operand_origins(x, a, 0)
        R.require(any(o.kind == "arg" and o.local == 2 for o in a0), "from-block-start", a.where(), "the block end is computed from the block start")
        morg = flow.origins(x, op_place(mins[0].args[1]), at=(mins[0].bb, "T"), stop=lambda c: c.name() in ("end", "start"))
        ends_ = [o.call for o in morg if o.kind == "call" and o.call.name() == "end"]
        rng = any("range" in f for e in ends_ for o in cm.operand_origins(x, e, 0) for f in o.field_names())
        R.require(bool(ends_) and rng, "clamped", mins[0].where(), "the block end is clamped to the end of the requested range",
                  fail_msg="the block end is not clamped to range.end() (%s)" % cm.origin_summary(morg))
        # the yielded sub-range is block_start..=min(..)
        nw = [c for c in x.calls if c.f == "core::ops::range::RangeInclusive::<Idx>::new"]
        if R.anchor(nw, "sub-range", "block_start..=block_end"):
            s0 = cm.operand_origins(x, nw[0], 0)
            e0 = {o.call.bb for o in flow.origins(x, op_place(nw[0].args[1]), at=(nw[0].bb, "T"), stop=lambda c: c.name() in ("min", "max")) if o.kind == "call"}
            R.require(any(o.kind == "arg" and o.local == 2 for o in s0) and mins[0].bb in e0, "sub-range-shape", nw[0].where(), "each sub-range is block_start..=clamped_end")
