"""C07 — local transactions are all-or-nothing and get gap-free consecutive versions (structural clauses)."""
import re

from corrolint import flow
from corrolint.facts import op_place, op_const, op_local
from . import common as cm
from . import sqlinv, tx

MBC = "klukai_agent::api::public::make_broadcastable_changes"
ILC = "klukai_types::change::insert_local_changes"
BCAST = "klukai_types::broadcast::broadcast_changes"
COMMIT_SNAPSHOT = "klukai_types::agent::BookedVersions::commit_snapshot"


def _closure(F):
    fam = F.family(F.get(MBC)) if F.get(MBC) else []
    return next((b for b in fam if tx.tx_begins(b)), None)


def run(ctx):
    ctx.trust("rusqlite rolls an uncommitted Transaction back on drop", "cr-sqlite assigns db_version = previous + 1 to a transaction that changed rows (crsql_peek_next_db_version)",
              "Iterator::collect::<Result<Vec<_>,_>> stops at the first Err")
    ctx.assume("gap-freeness of cr-sqlite's version counter and concurrent schedules are not decided (single writer: C20)")
    tx2(ctx)
    one(ctx)
    held(ctx)
    nochange(ctx)
    bcast(ctx)
    announce(ctx)
    bcast_errstop(ctx)


def tx2(ctx):
    F, G = ctx.F, ctx.G
    R = ctx.rule("C07.tx2", "K2", "make_broadcastable_changes commits only after every statement and insert_local_changes succeeded; publishes bookkeeping and spawns the broadcast only after the commit's Ok edge and only when changes exist")
    b = _closure(F)
    if not R.anchor(b, "closure", "blocking closure of make_broadcastable_changes"):
        return
    cs = tx.commits(b)
    if not R.require(len(cs) == 1, "one-commit", b.where(), "one commit", fail_msg="expected one commit in make_broadcastable_changes, found %d" % len(cs)):
        return
    k = cs[0]
    begin = tx.tx_begins(b)[0]
    txroot = {"tx:%s:%d" % (b.id, begin.bb)}
    R.require(tx.tx_roots(F, b, k, 0) == txroot, "commit-on-tx", k.where(), "the commit is of the transaction begun here")
    # user closure call f(&tx): a call through Fn::call on the upvar `f`
    fcalls = [c for c in b.calls if re.search(r"core::ops::function::Fn(Mut|Once)?::call(_mut|_once)?$", c.f)]
    ilc = [c for c in b.calls if (c.t.get("r") or c.f) == ILC]
    if not (R.anchor(fcalls, "user-fn", "call of the user closure f(&tx)") and R.anchor(ilc, "insert_local_changes", "insert_local_changes call")):
        return
    for c, name in ((fcalls[0], "user statements"), (ilc[0], "insert_local_changes")):
        oks = flow.ok_edge_of(b, c)
        errs = flow.err_edge_of(b, c)
        R.require(bool(oks) and b.edges_dominate(oks, k.bb), "commit-after-ok:" + name.split()[0], c.where(), "the commit is dominated by the Ok edge of %s" % name,
                  fail_msg="the commit is reachable although %s failed (not dominated by its Ok edge): a failing request could be partially committed" % name)
        R.require(bool(errs) and all(k.bb not in b.reachable(e[1]) for e in errs), "err-skips-commit:" + name.split()[0], c.where(), "a failing %s returns without committing" % name,
                  fail_msg="after %s fails the commit is still reachable" % name)
    # both run on the same tx
    for c, name, ai in ((fcalls[0], "f", 1), (ilc[0], "insert_local_changes", 1)):
        args = c.args[ai]
        pl = op_place(args)
        roots = sqlinv.classify_conn(F, b, pl, (c.bb, "T")) if pl is not None else set()
        # Fn::call takes a tuple of args: look inside
        if name == "f" and not roots & txroot:
            org = flow.origins(b, pl, at=(c.bb, "T"))
            roots = set()
            for o in org:
                pass
            roots = sqlinv.classify_conn(F, b, pl + [["f", 0, ""]], (c.bb, "T"))
        R.require(roots == txroot, "same-tx:" + name, c.where(), "%s runs on the transaction that is committed" % name,
                  fail_msg="%s runs on %s, not on the committed transaction %s" % (name, sorted(roots), sorted(txroot)))
    # publish effects
    snaps = [c for c in b.calls if (c.t.get("r") or c.f) == COMMIT_SNAPSHOT]
    spawns = [c for c in b.calls if c.f.endswith("spawn::spawn_counted") or c.f.startswith("tokio::task::spawn::spawn")]
    oks = flow.ok_edge_of(b, k)
    for lst, name in ((snaps, "commit_snapshot"), (spawns, "broadcast spawn")):
        if not R.anchor(lst, name, name + " call"):
            continue
        for c in lst:
            R.require(bool(oks) and b.edges_dominate(oks, c.bb), "%s-after-commit" % name.split()[0], c.where(), "%s is dominated by the commit's Ok edge" % name,
                      fail_msg="%s can happen before / without a successful commit: the node would announce or book a version that was rolled back" % name)
    # ... and only in the Some(info) arm
    ve = flow.variant_edges(b, ilc[0].dest)  # on the Result
    info_sw = None
    for bb in b.live_blocks():
        t = b.term(bb)
        if t["t"] == "sw" and any(s[0] == "A" and s[2][0] == "disc" and "InsertChangesInfo" in b.ty(s[2][1][0]) and "Option" in b.ty(s[2][1][0]) for s in b.blocks[bb]["s"]):
            if b.dominates(k.bb, bb):
                info_sw = bb
    if R.anchor(info_sw, "info-match", "match on insert_info after the commit"):
        t = b.term(info_sw)
        m = {v: x for v, x in t["targets"]}
        some_e = (info_sw, m.get(1, t["else"]))
        none_e = (info_sw, m.get(0, t["else"]))
        for lst, name in ((snaps, "commit_snapshot"), (spawns, "broadcast")):
            for c in lst:
                R.require(b.edge_dominates(some_e, c.bb), "%s-only-with-changes" % name, c.where(), "%s happens only when the transaction produced changes" % name,
                          fail_msg="%s happens although the transaction changed nothing (no version)" % name)
        # returned version: None on the None arm, Some(info.db_version) on the Some arm
        tuples = []
        for bb in b.live_blocks():
            for i, s in enumerate(b.blocks[bb]["s"]):
                if s[0] == "A" and s[2][0] == "agg" and s[2][1] == "tuple" and len(s[2][2]) == 3 and "CrsqlDbVersion" in b.ty(s[1][0]):
                    tuples.append((bb, i, s))
        for bb, i, s in tuples:
            p = op_place(s[2][2][1])
            org = flow.origins(b, p, at=(bb, i)) if p is not None else set()
            summ = cm.origin_summary(org)
            if b.edge_dominates(none_e, bb):
                R.require(all(o.kind == "const" for o in org) and org, "version-none", "%s:%d" % (b.file, s[3]), "no version is reported when nothing changed",
                          fail_msg="a version (%s) is reported although the transaction changed nothing" % summ)
            elif b.edge_dominates(some_e, bb):
                ok = any(o.kind == "call" and (o.call.t.get("r") or o.call.f) == ILC and "db_version" in o.field_names() for o in org) or any("db_version" in x for x in summ)
                R.require(ok, "version-some", "%s:%d" % (b.file, s[3]), "the acknowledged version is insert_local_changes' db_version",
                          fail_msg="the acknowledged version comes from %s, not from the committed transaction's db_version" % summ)


def one(ctx):
    F = ctx.F
    R = ctx.rule("C07.one", "K4", "api_v1_transactions runs every statement through execute_statement on the closure's transaction and propagates the first error")
    fam = F.family(F.get("klukai_agent::api::public::api_v1_transactions")) if F.get("klukai_agent::api::public::api_v1_transactions") else []
    es = [(b, c) for b in fam for c in b.calls if (c.t.get("r") or c.f) == "klukai_agent::api::public::execute_statement"]
    if not R.require(len(es) == 1, "execute_statement", "", "one execute_statement call site", fail_msg="expected one execute_statement site in api_v1_transactions, found %d" % len(es)):
        return
    b, c = es[0]
    org = cm.operand_origins(b, c, 0)
    R.require(bool(org) and all(o.kind == "arg" for o in org), "on-closure-tx", c.where(), "statements run on the transaction handed to the closure (%s)" % cm.origin_summary(org),
              fail_msg="execute_statement runs on %s rather than on the closure's transaction" % cm.origin_summary(org))
    # error not swallowed: from the Err arm no Ok(..) return value is built
    oks = [bb for bb in b.live_blocks() for s in b.blocks[bb]["s"] if s[0] == "A" and s[2][0] == "agg" and isinstance(s[2][1], dict) and s[2][1].get("variant") == "Ok" and s[1] == [0]]
    errs_r = [bb for bb in b.live_blocks() for s in b.blocks[bb]["s"] if s[0] == "A" and s[2][0] == "agg" and isinstance(s[2][1], dict) and s[2][1].get("variant") == "Err" and s[1] == [0]]
    # `?` returns the error through FromResidual::from_residual(..) written to the return place
    errs_r += [x.bb for x in b.calls if x.f == "core::ops::try_trait::FromResidual::from_residual" and x.dest == [0]]
    sw = [x for x in flow.variant_edges(b, [c.dest[0]])]
    # the result goes through map_err first; match is on the mapped value
    tainted, sinks = flow.taint(b, [c.dest[0]])
    msw = []
    for bb in b.live_blocks():
        t = b.term(bb)
        if t["t"] == "sw":
            for s in b.blocks[bb]["s"]:
                if s[0] == "A" and s[2][0] == "disc" and s[2][1][0] in tainted and op_local(t["d"]) == s[1][0]:
                    msw.append(bb)
    if R.anchor(msw, "result-match", "match on the statement result") and R.anchor(oks, "ok-return", "Ok(..) return") and R.anchor(errs_r, "err-return", "Err(..) return"):
        t = b.term(msw[0])
        m = {v: x for v, x in t["targets"]}
        err_t = m.get(1, t["else"])
        reach = b.reachable(err_t)
        R.require(not any(x in reach for x in oks) and any(x in reach for x in errs_r), "err-propagates", b.where(msw[0]), "a failing statement yields Err from the per-statement closure",
                  fail_msg="a failing statement can still yield Ok from the per-statement closure: the error is swallowed and later statements are committed")
    # no commit / begin inside the user closure family
    inner = [x for x in fam if tx.tx_begins(x) or tx.commits(x)]
    R.require(not inner, "no-nested-tx", "", "the endpoint itself begins/commits nothing (one transaction around all statements)",
              fail_msg="api_v1_transactions begins or commits a transaction of its own in %s" % [x.id for x in inner])


def held(ctx):
    F, G = ctx.F, ctx.G
    R = ctx.rule("C07.held", "K3", "the write connection and the own-actor booked write guard are both held by the closure that runs the transaction and publishes")
    b = _closure(F)
    if not R.anchor(b, "closure", "blocking closure of make_broadcastable_changes"):
        return
    eg = G.env_guards(b)
    classes = {g[0] for gs in eg.values() for g in gs}
    R.require({"conn"} <= classes, "conn-held", b.where(), "the WriteConn is moved into the closure (%s)" % sorted(classes),
              fail_msg="the closure does not own the write connection (captured guards: %s)" % sorted(classes))
    # the booked writer is captured by reference (&mut guard): look at the parent for the guard being live at the closure call
    parent = F.get(b.parent)
    passed, created = G.closure_operands(parent)
    site = [call for call, cid, i in passed if cid == b.id]
    if R.anchor(site, "block_in_place", "call running the closure"):
        heldc = {h[0] for h in G.held_classes_at(parent, site[0].bb)}
        R.require("booked" in heldc or "tk:BookedVersions" in heldc or "booked" in classes, "booked-held", site[0].where(), "the own booked write guard is held while the closure runs (%s)" % sorted(heldc | classes),
                  fail_msg="the booked write guard is not held across the transaction (held: %s)" % sorted(heldc | classes))
    # the guard is of the agent's own actor
    bw = [c for c in parent.calls if (c.t.get("r") or c.f) == "klukai_types::agent::Agent::booked"]
    R.require(bool(bw), "own-booked", parent.where(), "the guard comes from agent.booked() (own actor)", fail_msg="make_broadcastable_changes no longer locks agent.booked()")


def nochange(ctx):
    F = ctx.F
    R = ctx.rule("C07.nochange", "K2", "insert_local_changes books a version (insert_db) only when the transaction produced sequences (MAX(seq) is not NULL)")
    b = F.get(ILC)
    if not R.anchor(b, "insert_local_changes", "fn insert_local_changes"):
        return
    idb = [c for c in b.calls if (c.t.get("r") or c.f) == "klukai_types::agent::VersionsSnapshot::insert_db"]
    if not R.anchor(idb, "insert_db", "insert_db call"):
        return
    # switch on the discriminant of version_info.0 : Option<CrsqlSeq>
    sws = []
    for bb in b.live_blocks():
        t = b.term(bb)
        if t["t"] == "sw":
            for s in b.blocks[bb]["s"]:
                if s[0] == "A" and s[2][0] == "disc" and op_local(t["d"]) == s[1][0]:
                    pl = s[2][1]
                    # `match version_info { (Some(seq), _) .. }` on the row tuple, or `let Some(seq) = max_seq` on its first part
                    if "CrsqlSeq" in b.ty(pl[0]) and any(isinstance(x, list) and x[0] == "f" and x[1] == 0 for x in pl[1:]):
                        sws.append(bb)
                    elif len(pl) == 1 and re.match(r"^core::option::Option<klukai_types::base::CrsqlSeq>$", b.ty(pl[0])) \
                            and any(o.kind == "call" and o.call.name() in ("query_row", "query_one") for o in flow.origins(b, pl, at=(bb, "T"))):
                        sws.append(bb)
    if not R.anchor(sws, "seq-match", "match on MAX(seq) being Some/None"):
        return
    t = b.term(sws[0])
    m = {v: x for v, x in t["targets"]}
    some_e = (sws[0], m.get(1, t["else"]))
    none_t = m.get(0, t["else"])
    R.require(b.edge_dominates(some_e, idb[0].bb) and idb[0].bb not in b.reachable(none_t), "book-iff-seq", idb[0].where(), "insert_db is reached only when the transaction has sequences",
              fail_msg="insert_db (consuming a version in bookkeeping) is reachable although the transaction produced no change rows")
    # ... and conversely: "nothing to book" (Ok(None)) is answered only when MAX(seq) is NULL.  Any other Ok(None) - e.g. a
    # shortcut on the last statement's row count - commits changes whose version is neither booked nor announced
    nones = []
    for bb in b.live_blocks():
        for i, st in enumerate(b.blocks[bb]["s"]):
            if st[0] == "A" and st[1] == [0] and st[2][0] == "agg" and isinstance(st[2][1], dict) and st[2][1].get("variant") == "Ok":
                org = flow.origins(b, op_place(st[2][2][0]), at=(bb, i)) if st[2][2] and op_place(st[2][2][0]) is not None else set()
                inner = [o for o in org if o.kind in ("agg", "aggregate")]
                # the payload is an Option aggregate: find it syntactically
                pl = op_place(st[2][2][0]) if st[2][2] else None
                isnone = False
                if pl is not None:
                    for d in b.defs.get(pl[0], []):
                        if d[2] == "assign" and d[3][1][0] == "agg" and isinstance(d[3][1][1], dict) and d[3][1][1].get("adt") == "core::option::Option" and d[3][1][1].get("variant") == "None" \
                                and (d[0] == bb or b.can_reach(d[0], bb)):
                            isnone = True
                if isnone:
                    nones.append(bb)
    none_e = (sws[0], none_t)
    if R.anchor(nones, "ok-none", "`Ok(None)` return(s) of insert_local_changes"):
        early = [x for x in nones if not b.edge_dominates(none_e, x)]
        R.require(not early, "none-iff-no-seq", b.where(early[0] if early else nones[0]), "every Ok(None) return lies behind the MAX(seq) IS NULL arm (%d return(s))" % len(nones),
                  fail_msg="insert_local_changes can answer Ok(None) without having found MAX(seq) NULL: a transaction that did change rows commits, its version is consumed by cr-sqlite, "
                           "but it is neither booked nor announced (the client gets no version; the next write leaves a gap in the node's own versions)")
    # the version booked is crsql_peek_next_db_version()
    sq = [s.sql for s in sqlinv.inventory(F, [b])]
    R.require(any("crsql_peek_next_db_version" in s for s in sq), "peek-next", b.where(), "the version is read from crsql_peek_next_db_version()")
    R.require(any(re.search(r"MAX\(seq\).*FROM\s+crsql_changes.*site_id\s*=\s*\?.*db_version\s*=\s*\?", s, re.I | re.S) for s in sq), "max-seq", b.where(), "last_seq is MAX(seq) of this site's rows of that db_version")


def bcast_errstop(ctx):
    from .C05 import chunker_errstop
    F = ctx.F
    R = ctx.rule("C07.errstop", "K2", "broadcast_changes: once the chunker reports a row error no further chunk of that version is announced")
    fam = [x for x in F.find(r"^klukai_types::broadcast::broadcast_changes") if any(c.name() == "next" and "ChunkedChanges" in c.self_ty for c in x.calls)]
    if not R.anchor(fam, "broadcast_changes", "closure of broadcast_changes iterating the chunker"):
        return
    chunker_errstop(R, fam[0], r"^tokio::task::spawn::spawn$|CorroSender::<T>::(send|try_send|blocking_send)$", "")


def bcast(ctx):
    F = ctx.F
    R = ctx.rule("C07.bcast", "K7", "the committed version is announced as chunks over 0..=last_seq of that version, each sent as Changeset::Full{version, seqs, last_seq, ts} of the same values")
    m = _closure(F)
    fam = F.family(F.get(MBC)) if F.get(MBC) else []
    calls = [(b, c) for b in fam for c in b.calls if (c.t.get("r") or c.f) == BCAST]
    if R.require(len(calls) == 1, "spawned-call", "", "one broadcast_changes call", fail_msg="expected one broadcast_changes call, found %d" % len(calls)):
        b, c = calls[0]
        for ai, nm in ((1, "db_version"), (2, "last_seq"), (3, "ts")):
            pl = op_place(c.args[ai])
            names = set()
            cur, curp = b, pl
            hops = 0
            while cur is not None and curp is not None and hops < 3:
                org = flow.origins(cur, curp, at=(c.bb, "T") if cur is b else None)
                names |= {f for o in org for f in o.field_names()}
                up = [o for o in org if o.kind == "arg" and o.local == 1 and cur.kind != "fn"]
                if not up or not cur.parent:
                    break
                # follow the upvar into the parent
                par = F.get(cur.parent)
                nxt = None
                for bb, bl in enumerate(par.blocks):
                    for s in bl["s"]:
                        if s[0] == "A" and s[2][0] == "agg" and isinstance(s[2][1], dict) and (s[2][1].get("coroutine") == cur.id or s[2][1].get("closure") == cur.id):
                            fn = up[0].field_names()[0] if up[0].field_names() else None
                            if fn in s[2][1].get("fields", []):
                                nxt = op_place(s[2][2][s[2][1]["fields"].index(fn)])
                cur, curp, hops = par, nxt, hops + 1
            R.require(nm in names, "arg:" + nm, c.where(), "broadcast_changes(%s) is InsertChangesInfo.%s" % (nm, nm),
                      fail_msg="broadcast_changes is given %s for %s" % (sorted(names), nm))
    bc = [x for x in F.family(F.get(BCAST))] if F.get(BCAST) else []
    news = [(b, c) for b in bc for c in b.calls if c.f.endswith("ChunkedChanges::<I>::new")]
    if R.anchor(news, "chunker", "ChunkedChanges::new in broadcast_changes"):
        b, c = news[0]
        k = flow.origins(b, op_place(c.args[1]), at=(c.bb, "T")) if op_place(c.args[1]) is not None else set()
        R.require(bool(k) and all(o.kind == "const" and o.const.get("v") == 0 for o in k), "chunk-from-0", c.where(), "chunks start at CrsqlSeq(0)",
                  fail_msg="broadcast chunking starts at %s, not at sequence 0" % cm.origin_summary(k))
        o2 = cm.origin_summary(cm.operand_origins(b, c, 2))
        R.require(any("last_seq" in x for x in o2), "chunk-to-last_seq", c.where(), "chunks end at the version's last_seq (%s)" % o2,
                  fail_msg="broadcast chunking ends at %s, not at last_seq" % o2)
    fulls = [(b,) + a for b in bc for a in cm.aggregates(b, "klukai_types::broadcast::Changeset", "Full")]
    if R.anchor(fulls, "full", "Changeset::Full in broadcast_changes"):
        b, bb, i, place, k, ops, line = fulls[0]
        mp = {}
        for fn, op in zip(k["fields"], ops):
            p = op_place(op)
            mp[fn] = cm.origin_summary(flow.origins(b, p, at=(bb, i))) if p is not None else []
        ok = any("db_version" in x for x in mp.get("version", [])) and any("last_seq" in x for x in mp.get("last_seq", [])) and any(x.endswith("ts") for x in mp.get("ts", []))
        R.require(ok, "full-fields", "%s:%d" % (b.file, line), "Full{version<-db_version, last_seq<-last_seq, ts<-ts}", fail_msg="Changeset::Full field provenance: %s" % mp)


def announce(ctx):
    """an acknowledged version must be announced completely: each chunk is handed to the broadcast queue with a send that waits
    for capacity; a non-waiting try_send on the bounded queue silently drops chunks under load"""
    F, G = ctx.F, ctx.G
    R = ctx.rule("C07.announce", "K1+K2", "broadcast_changes hands every chunk of the committed version to the broadcast queue with a capacity-waiting send (chunks cannot be dropped because the queue is full)")
    fam = F.family(F.get(BCAST)) if F.get(BCAST) else []
    adds = [(b,) + a for b in fam for a in cm.aggregates(b, "klukai_types::broadcast::BroadcastInput", "AddBroadcast")]
    if not R.require(len(adds) == 1, "AddBroadcast", "", "one AddBroadcast construction in broadcast_changes", fail_msg="expected one BroadcastInput::AddBroadcast construction in broadcast_changes, found %d" % len(adds)):
        return
    b, bb, i, place, k, ops, line = adds[0]
    tainted, sinks = flow.taint(b, [place[0]], through_all_calls=False)
    senders = [c for c, idx in sinks if "BroadcastInput" in c.self_ty and re.search(r"::(send|try_send|blocking_send|send_timeout)$", c.f)]
    if not senders:
        # the message is built first and moved into the spawned task that sends it
        for bb2, bl in enumerate(b.blocks):
            for st in bl["s"]:
                if st[0] == "A" and st[2][0] == "agg" and isinstance(st[2][1], dict) and (st[2][1].get("coroutine") or st[2][1].get("closure")):
                    cid = st[2][1].get("coroutine") or st[2][1].get("closure")
                    for nm, op in zip(st[2][1].get("fields", []), st[2][2]):
                        if op_place(op) is not None and op_place(op)[0] in tainted:
                            child = F.get(cid)
                            for x in (child.calls if child is not None else []):
                                if "BroadcastInput" in x.self_ty and re.search(r"::(send|try_send|blocking_send|send_timeout)$", x.f) and len(x.args) > 1 and op_place(x.args[1]) is not None:
                                    org = flow.origins(child, op_place(x.args[1]), at=(x.bb, "T"))
                                    if org and all(o.kind == "arg" and o.local == 1 and nm in o.field_names()[:1] for o in org):
                                        senders.append(x)
    if not R.anchor(senders, "send-call", "the channel send receiving the AddBroadcast value"):
        return
    c = senders[0]
    R.require(c.f.endswith("CorroSender::<T>::send") or c.f.endswith("Sender::<T>::send") or c.name() == "blocking_send", "waits-for-capacity", c.where(),
              "the chunk is enqueued with %s (waits for capacity)" % c.name(),
              fail_msg="the chunk is enqueued with `%s`: when the bounded broadcast queue is full the chunk is dropped, so an acknowledged version is announced incompletely or not at all" % c.name())
    # every chunk yielded by the chunker reaches an AddBroadcast: the construction is in the Ok arm of the chunk loop with no early exit before it
    main = next((x for x in fam if any(cc.f.endswith("ChunkedChanges::<I>::new") for cc in x.calls)), None)
    if main is not None:
        nx = [cc for cc in main.calls if cc.name() == "next" and "ChunkedChanges" in cc.self_ty + cc.fi]
        R.require(bool(nx), "chunk-loop", main.where(), "all chunks of the version are iterated")
