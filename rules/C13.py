"""C13 — subscriptions survive a clean restart and are discarded after an unclean one (typestate of the durable marker)."""
import re

from corrolint import flow
from corrolint.facts import op_place, op_const, op_local
from . import common as cm
from . import sqlinv, tx

MATCHER = "klukai_types::pubsub::Matcher::"
SET_STATUS = MATCHER + "set_status"


def run(ctx):
    ctx.trust("SQLite durability of the subscription database", "AUTOINCREMENT change ids continue after restart")
    ctx.assume("equality of the materialised rows with the query after restart is C11 (not decided)")
    writers(ctx)
    completed(ctx)
    running(ctx)
    restore(ctx)
    cleanup(ctx)


def _status_calls(F):
    """[(Call, status string)] for every set_status call with a constant status"""
    out = []
    for c in F.callers_of(SET_STATUS):
        strs = cm.call_strings(c.body, c, F)
        out.append((c, strs[0] if strs else None))
    return out


def writers(ctx):
    F = ctx.F
    R = ctx.rule("C13.writers", "K1", "the durable `state` marker of a subscription is written only by Matcher::create ('created'), Matcher::run ('running') and Matcher::set_status")
    sites = [s for s in sqlinv.inventory(F) if "meta" in s.writes and "'state'" in s.sql]
    allowed = {MATCHER + "create", MATCHER + "run", SET_STATUS}
    roots = set()
    for s in sites:
        root = F.root_fn(s.body).id
        roots.add(root)
        R.require(root in allowed, "writer@%s" % root, s.call.where(), "state marker written in %s" % root.rsplit("::", 1)[-1],
                  fail_msg="the subscription state marker is written in %s (unregistered writer)" % s.body.id)
    R.require(roots == allowed, "all-writers", "", "all three registered writers exist", fail_msg="state-marker writers found: %s" % sorted(roots))
    lit = {}
    for s in sites:
        m = re.search(r"'state'\s*,\s*'(\w+)'", s.sql)
        if m:
            lit[F.root_fn(s.body).id] = m.group(1)
    R.require(lit.get(MATCHER + "create") == "created" and lit.get(MATCHER + "run") == "running", "literals", "", "create writes 'created', run writes 'running' (%s)" % lit,
              fail_msg="literal markers changed: %s" % lit)
    vals = sorted({v for c, v in _status_calls(F) if v})
    R.require(set(vals) <= {"completed", "running", "cancelled"} and "completed" in vals and "running" in vals, "status-values", "", "set_status is called with %s" % vals,
              fail_msg="set_status is called with unexpected values %s" % vals)


def completed(ctx):
    F = ctx.F
    R = ctx.rule("C13.completed", "K2", "'completed' is recorded only after the change channel was drained to its end and the last buffered candidates were handled successfully")
    done = [(c, v) for c, v in _status_calls(F) if v == "completed"]
    if not R.require(len(done) == 1, "one-site", "", "one set_status(\"completed\") site", fail_msg="expected exactly one set_status(\"completed\") site, found %d" % len(done)):
        return
    c = done[0][0]
    b = c.body
    R.require(F.root_fn(b).id == MATCHER + "cmd_loop", "in-cmd_loop", c.where(), "it is in cmd_loop", fail_msg="set_status(\"completed\") moved to %s" % b.id)
    # the drain loop: a poll of Receiver::recv in this body (not inside the select closure)
    polls = [p for p in b.calls if p.f == "core::future::future::Future::poll" and any(o.kind == "call" and o.call.name() == "recv" and "MatchCandidates" in o.call.self_ty + o.call.t.get("dty", "")
                                                                                       or (o.kind == "call" and o.call.name() == "recv") for o in cm.operand_origins(b, p, 0))]
    polls = [p for p in polls if "Option<" in p.t.get("dty", "")]
    drain = [p for p in polls if b.dominates(p.bb, c.bb)]
    if not R.anchor(drain, "drain-recv", "changes_rx.recv().await dominating the completed marker"):
        return
    d = drain[-1]
    # Ready payload -> Option: None edge must dominate the marker
    ready = None
    for sw, m, other in flow.variant_edges(b, d.dest):
        if 0 in m:
            ready = (sw, m[0])
    ok = False
    if ready is not None:
        # the Option inside: find discriminant switches on values derived from the poll result
        tainted, _ = flow.taint(b, [d.dest[0]])
        for bb in b.live_blocks():
            t = b.term(bb)
            if t["t"] != "sw":
                continue
            for s in b.blocks[bb]["s"]:
                if s[0] == "A" and s[2][0] == "disc" and s[2][1][0] in tainted and op_local(t["d"]) == s[1][0] and "Option" in b.ty(s[2][1][0]) and "Poll" not in b.ty(s[2][1][0]):
                    m = {v: x for v, x in t["targets"]}
                    none_e = (bb, m.get(0, t["else"]))
                    some_t = m.get(1, t["else"])
                    if b.edge_dominates(none_e, c.bb) and c.bb not in b.reachable(some_t, no_nodes=(bb,)):
                        ok = True
    R.require(ok, "after-drain-end", c.where(), "the marker is reached only through the `None` (channel closed and drained) edge of the drain loop",
              fail_msg="set_status(\"completed\") can be reached without the change channel having been drained to its end: a restart would serve a stale materialisation as if it were clean")
    # final handle_candidates(.., true): Err edge must not reach the marker
    hcs = [h for h in F.family(b) for h in [x for x in h.calls if (x.t.get("r") or x.f) == MATCHER + "handle_candidates"]]
    passed, created = ctx.G.closure_operands(b)
    finals = []
    for call, cid, i in passed:
        cb = F.get(cid)
        if cb is None:
            continue
        for h in cb.calls:
            if (h.t.get("r") or h.f) == MATCHER + "handle_candidates":
                k = op_const(h.args[3]) if len(h.args) > 3 else None
                if k is not None and k.get("v") == 1 and b.can_reach(call.bb, c.bb):
                    finals.append(call)
    if R.anchor(finals, "final-handle_candidates", "block_in_place(|| handle_candidates(.., true)) before the marker"):
        f = finals[0]
        # `if let Err(e) = ..` : discriminant switch on the call result
        bad = False
        found = False
        for sw, m, other in flow.variant_edges(b, f.dest):
            err_t = m.get(1, other)
            found = True
            if c.bb in b.reachable(err_t):
                bad = True
        R.require(found and not bad, "err-skips-marker", f.where(), "a failing final handle_candidates returns (after cleanup) without marking 'completed'",
                  fail_msg="'completed' is recorded although handling the last buffered candidates failed")
        R.require(b.dominates(d.bb, f.bb), "final-after-drain", f.where(), "the final candidates are handled after the drain")
        # the final flush may be skipped only when the buffer that the drain loop fills - the one handed to the final
        # handle_candidates - is empty (a counter maintained elsewhere says nothing about what arrived during the drain)
        cid = next((cid_ for call, cid_, i in passed if call is f or call.bb == f.bb), None)
        bufsrc = set()
        for bb_, bl in enumerate(b.blocks):
            for i_, st in enumerate(bl["s"]):
                if st[0] == "A" and st[2][0] == "agg" and isinstance(st[2][1], dict) and st[2][1].get("closure") == cid:
                    for nm, op in zip(st[2][1].get("fields", []), st[2][2]):
                        if op_place(op) is not None and "MatchCandidates" in b.ty(op_place(op)[0]) + "" or (op_place(op) is not None and "IndexMap<klukai_types::api::TableName" in b.ty(op_place(op)[0])):
                            bufsrc |= {o.key() if hasattr(o, "key") else (o.kind, o.bb) for o in flow.origins(b, op_place(op), at=(bb_, i_))}
        empties = [e for e in b.calls if e.name() == "is_empty" and b.dominates(d.bb, e.bb) and b.dominates(e.bb, f.bb) and "IndexMap" in e.self_ty]
        okskip = False
        for e in empties:
            esrc = {o.key() if hasattr(o, "key") else (o.kind, o.bb) for o in flow.origins(b, op_place(e.args[0]), at=(e.bb, "T"))} if op_place(e.args[0]) is not None else set()
            te, fe = flow.true_false_targets(b, e)
            if not te or not (esrc & bufsrc):
                continue
            # with the `is_empty() == true` edge removed, the marker is reachable from the end of the drain only through the flush
            if not b.can_reach(e.bb, c.bb, no_nodes=(f.bb,), no_edges=te):
                okskip = True
        R.require(okskip, "skip-iff-buffer-empty", f.where(), "the final flush is skipped only when the drained buffer itself is empty",
                  fail_msg="the final handle_candidates can be skipped on a condition other than `buf.is_empty()` of the buffer the drain loop fills: candidates that arrive while the "
                           "matcher drains are dropped and the subscription is still marked 'completed' (restored later with rows that no longer equal its query)")


def running(ctx):
    F = ctx.F
    R = ctx.rule("C13.running", "K2", "while a subscription is served its marker is 'running': run commits 'running' and run_restore sets it (and checks the result) before entering cmd_loop")
    for fn in ("run_restore",):
        cos = cm.coroutines_of(F, MATCHER + fn)
        b = next((x for x in cos if any("cmd_loop" in (c.t.get("r") or c.f) for c in x.calls)), None)
        if not R.anchor(b, fn, "coroutine of Matcher::" + fn):
            continue
        loop = [c for c in b.calls if "cmd_loop" in (c.t.get("r") or c.f)][0]
        st = [c for c in b.calls if (c.t.get("r") or c.f) == SET_STATUS and "running" in cm.call_strings(b, c, F)]
        if R.anchor(st, fn + ".set-running", "set_status(\"running\") in " + fn):
            s = st[0]
            ok = False
            for sw, m, other in flow.variant_edges(b, s.dest):
                ok_t, err_t = m.get(0, other), m.get(1, other)
                if loop.bb in b.reachable(ok_t) and loop.bb not in b.reachable(err_t):
                    ok = True
            R.require(ok and b.dominates(s.bb, loop.bb), fn + ".before-loop", s.where(), "cmd_loop starts only after set_status(\"running\") succeeded",
                      fail_msg="run_restore can enter cmd_loop without having durably reset the marker to 'running': an unclean stop after a restore would look clean")
    cos = cm.coroutines_of(F, MATCHER + "run")
    b = next((x for x in cos if any("cmd_loop" in (c.t.get("r") or c.f) for c in x.calls)), None)
    if R.anchor(b, "run", "coroutine of Matcher::run"):
        loop = [c for c in b.calls if "cmd_loop" in (c.t.get("r") or c.f)][0]
        fam = F.family(b)
        ws = [s for s in sqlinv.inventory(F, fam) if "meta" in s.writes and "'running'" in s.sql]
        if R.anchor(ws, "run.marker", "INSERT OR REPLACE ... ('state','running') in run"):
            w = ws[0]
            cs = tx.commits(w.body)
            R.require(bool(cs) and w.body.dominates(w.call.bb, cs[0].bb), "run.marker-committed", w.call.where(), "the 'running' marker is written inside the initial-query transaction, before its commit",
                      fail_msg="the 'running' marker is not committed with the initial query")
            # the closure's Ok edge dominates cmd_loop
            passed, created = ctx.G.closure_operands(b)
            runs = [call for call, cid, i in passed if cid == w.body.id]
            if R.anchor(runs, "run.block_in_place", "call running the initial-query closure"):
                good = False
                for sw, m, other in flow.variant_edges(b, runs[0].dest):
                    if loop.bb in b.reachable(m.get(0, other)) and loop.bb not in b.reachable(m.get(1, other)):
                        good = True
                oks = flow.ok_edge_of(b, runs[0])
                if oks and b.edges_dominate(oks, loop.bb):
                    good = True
                R.require(good, "run.before-loop", runs[0].where(), "cmd_loop starts only after the initial query (with the marker) committed",
                          fail_msg="Matcher::run can enter cmd_loop although the initial query / marker transaction failed")


def restore(ctx):
    F, G = ctx.F, ctx.G
    R = ctx.rule("C13.restore", "K9+K2", "Matcher::restore proceeds only when the stored marker equals 'completed'; any other value or its absence is refused")
    rb = F.get(MATCHER + "restore")
    if not R.anchor(rb, "restore", "fn Matcher::restore"):
        return
    fam = F.family(rb)
    cl = next((x for x in fam if any("'state'" in s.sql for s in sqlinv.inventory(F, [x]))), None)
    if not R.anchor(cl, "closure", "closure reading meta.state"):
        return
    eqs = [c for c in cl.calls if c.f in ("core::cmp::PartialEq::eq", "core::cmp::PartialEq::ne") and "str" in c.self_ty and "completed" in cm.call_strings(cl, c, F)]
    nr = cm.agg_blocks(cl, "klukai_types::pubsub::MatcherError", "NotRunning")
    if not (R.require(len(eqs) == 1, "compare", cl.where(), "one comparison with the literal \"completed\"", fail_msg="expected one str comparison with \"completed\" in restore, found %d (other literals accepted?)" % len(eqs))
            and R.anchor(nr, "NotRunning", "MatcherError::NotRunning construction")):
        return
    c = eqs[0]
    is_eq = c.name() == "eq"
    tgt = cl.term(c.bb)["tgt"]
    res = {}
    for v in (False, True):
        reach, _ = flow.eval_guard(cl, {c.bb: v}, start=tgt, env0={c.dest[0]: v})
        res[v] = any(x in reach for x in nr)
    refused_when_diff = res[False] if is_eq else res[True]
    refused_when_eq = res[True] if is_eq else res[False]
    R.require(refused_when_diff and not refused_when_eq, "refuse-iff-not-completed", c.where(), "once a marker is present, NotRunning is returned iff it differs from 'completed'",
              fail_msg="restore's refusal by marker comparison outcome is (differs: %s, equals: %s)" % (refused_when_diff, refused_when_eq))
    # an absent marker is refused too: the None arm of the Option reaches NotRunning without passing the comparison
    asd = [x for x in cl.calls if x.name() in ("as_deref", "optional") and cl.dominates(x.bb, c.bb)]
    none_ok = False
    for x in asd:
        for sw, m, other in flow.variant_edges(cl, x.dest):
            none_t = m.get(0, other)
            if any(n in cl.reachable(none_t, no_nodes=(c.bb,)) for n in nr):
                none_ok = True
    if not none_ok and c.self_ty.startswith("core::option::Option<") and refused_when_diff:
        # `state.as_deref() != Some("completed")`: the comparison is on the Option itself, so an absent marker (None) is
        # one of the "differs" outcomes that were just shown to be refused
        somes = [o for i_ in (0, 1) for o in cm.operand_origins(cl, c, i_) if o.kind == "const" and o.const and "completed" in str(o.const.get("s", ""))] or "completed" in cm.call_strings(cl, c, F)
        none_ok = bool(somes)
    R.require(none_ok, "absent-refused", c.where(), "a missing marker is refused (None arm reaches NotRunning)", fail_msg="a subscription database without a state marker is not refused")
    # later reads (the sql) happen only when equal
    sqlq = [s for s in sqlinv.inventory(F, [cl]) if "'sql'" in s.sql]
    if sqlq:
        ok, d = cm.effect_only_when_equal(cl, c, [sqlq[0].call.bb])
        R.require(ok, "sql-read-iff-completed", sqlq[0].call.where(), "the stored SQL is read only for a 'completed' subscription %s" % d)
    # absence (None) is refused: the None arm of the Option reaches NotRunning without the comparison
    # the operand compared is the value read by the 'state' query
    o = cm.deep_names(cl, op_place(c.args[0]), (c.bb, "T"))[1] | cm.deep_names(cl, op_place(c.args[1]), (c.bb, "T"))[1]
    R.require("query_row" in o or "optional" in o or "as_deref" in o, "compares-stored-state", c.where(), "the compared value is the stored marker (%s)" % sorted(o)[:6])
    # parent: new / spawn dominated by the closure's Ok edge
    passed, created = G.closure_operands(rb)
    runs = [call for call, cid, i in passed if cid == cl.id]
    if R.anchor(runs, "block_in_place", "call running the closure"):
        oks = flow.ok_edge_of(rb, runs[0])
        for name, pred in (("Matcher::new", lambda x: (x.t.get("r") or x.f) == MATCHER + "new"), ("spawn run_restore", lambda x: x.f.endswith("spawn::spawn_counted"))):
            cs = [x for x in rb.calls if pred(x)]
            if R.anchor(cs, name, name + " in restore"):
                R.require(bool(oks) and rb.edges_dominate(oks, cs[0].bb), "%s-after-ok" % name.split()[0], cs[0].where(), "%s happens only after the marker check passed" % name,
                          fail_msg="%s is reachable although the marker check failed" % name)
    # the restored handle keeps the id it was given
    nw = [x for x in rb.calls if (x.t.get("r") or x.f) == MATCHER + "new"]
    if nw:
        org = cm.operand_origins(rb, nw[0], 0)
        R.require(bool(org) and all(o.kind == "arg" and o.local == 1 for o in org), "same-id", nw[0].where(), "the subscription is re-created under the id of its directory")


def cleanup(ctx):
    F = ctx.F
    R = ctx.rule("C13.cleanup", "K2", "setup_spawn_subscriptions removes every subscription whose restore was refused")
    cos = cm.coroutines_of(F, "klukai_agent::agent::setup::setup_spawn_subscriptions")
    b = next((x for x in cos if any(c.f.endswith("SubsManager::restore") for c in x.calls)), None)
    if not R.anchor(b, "setup_spawn_subscriptions", "coroutine of setup_spawn_subscriptions"):
        return
    rs = [c for c in b.calls if c.f.endswith("SubsManager::restore")][0]
    pushes = [c for c in b.calls if c.f.endswith("Vec::<T, A>::push") and "Uuid" in c.self_ty]
    cl = [c for c in b.calls if (c.t.get("r") or c.f) == MATCHER + "cleanup"]
    if not (R.anchor(pushes, "to_cleanup.push", "to_cleanup.push(sub_id)") and R.anchor(cl, "Matcher::cleanup", "Matcher::cleanup call")):
        return
    ok = False
    for sw, m, other in flow.variant_edges(b, rs.dest):
        err_t, ok_t = m.get(1, other), m.get(0, other)
        if pushes[0].bb in b.reachable(err_t, no_nodes=(rs.bb,)) and pushes[0].bb not in b.reachable(ok_t, no_nodes=(rs.bb,)):
            ok = True
    R.require(ok, "err->to_cleanup", pushes[0].where(), "a refused restore queues the subscription for cleanup (and only a refused one)",
              fail_msg="a failed restore is not queued for cleanup (or successful ones are)")
    # pushed id is the restored id
    o1 = cm.origin_summary(cm.operand_origins(b, pushes[0], 1))
    o2 = cm.origin_summary(cm.operand_origins(b, rs, 1))
    R.require(bool(set(o1) & set(o2)), "same-id", pushes[0].where(), "the id queued is the id whose restore failed")
    # cleanup iterates to_cleanup: its id argument derives from the vector
    f, calls = cm.deep_names(b, op_place(cl[0].args[0]), (cl[0].bb, "T"), hops=6)
    R.require("into_iter" in calls or "next" in calls or "new" in calls, "cleanup-from-vec", cl[0].where(), "Matcher::cleanup runs for the queued ids (%s)" % sorted(calls)[:5])
    # Matcher::cleanup removes the directory
    cb = F.get(MATCHER + "cleanup")
    if R.anchor(cb, "cleanup-body", "fn Matcher::cleanup"):
        rm = [c for x in F.family(cb) for c in x.calls if c.f.endswith("fs::remove_dir_all")]
        R.require(bool(rm), "removes-dir", cb.where(), "Matcher::cleanup removes the subscription directory", fail_msg="Matcher::cleanup no longer removes the subscription directory")
