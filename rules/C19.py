"""C19 — backup and restore reproduce the replicated data with correct authorship (narrow structural clauses)."""
import re

from corrolint import flow
from corrolint.facts import op_place, op_const, op_local
from . import common as cm
from . import sqlinv

RS = "klukai_types::sqlite3_restore::"
CLI = "corrosion::process_cli"


def run(ctx):
    ctx.trust("POSIX fcntl byte-range locks", "SQLite's file locking protocol (lock bytes PENDING/RESERVED/SHARED, WAL-index lock slots)", "VACUUM INTO produces a consistent copy")
    ctx.assume("equality of the restored crsql_changes with the source and reader-visible atomicity are not decided; only lock-before-mutate, lock-byte coverage, copy verification and table bookkeeping")
    locked(ctx)
    bytes_(ctx)
    copy(ctx)
    running(ctx)
    local(ctx)
    clock(ctx)


def locked(ctx):
    F = ctx.F
    R = ctx.rule("C19.locked", "K2", "restore over a non-empty destination mutates nothing (journal, WAL, database bytes, shm header) before lock_all succeeded")
    b = F.get(RS + "restore")
    if not R.anchor(b, "restore", "fn sqlite3_restore::restore"):
        return
    la = [c for c in b.calls if (c.t.get("r") or c.f) == RS + "lock_all"]
    if not R.require(len(la) == 1, "lock_all", b.where(), "one lock_all call", fail_msg="expected one lock_all call in restore, found %d" % len(la)):
        return
    oks = flow.ok_edge_of(b, la[0])
    muts = [("remove journal", [c for c in b.calls if c.f.endswith("fs::remove_file")]),
            ("truncate WAL / open for write", [c for c in b.calls if c.f.endswith("OpenOptions::truncate") and (op_const(c.args[1]) or {}).get("v") == 1]),
            ("copy_check", [c for c in b.calls if (c.t.get("r") or c.f) == RS + "copy_check"]),
            ("wipe shm header", [c for c in b.calls if c.name() == "write_at"]),
            ("seek", [c for c in b.calls if c.name() == "seek"])]
    # the empty-destination fast path: a copy_check on the `len == 0` edge
    lens = [c for c in b.calls if c.f.endswith("Metadata::len")]
    for name, cs in muts:
        if not R.anchor(cs, name, name + " in restore"):
            continue
        for n, c in enumerate(cs):
            if b.edges_dominate(oks, c.bb):
                R.ok("%s#%d" % (name.split()[0], n), c.where(), "%s happens only after lock_all succeeded" % name)
                continue
            # allowed only on the empty-destination edge
            fast = False
            for ln in lens:
                for sw in flow.int_compare_switches(b, ln.dest[0]):
                    bb, op, k, tt, ft, lhs = sw
                    zero_t = tt if flow.int_relation_holds(op, k, lhs, 0) else ft
                    pos_t = tt if flow.int_relation_holds(op, k, lhs, 4096) else ft
                    if c.bb in b.reachable(zero_t, no_nodes=(bb,)) and c.bb not in b.reachable(pos_t, no_nodes=(bb, la[0].bb)):
                        fast = True
            R.require(fast and name in ("copy_check", "truncate WAL / open for write"), "%s#%d" % (name.split()[0], n), c.where(), "%s without the lock only for an empty destination" % name,
                      fail_msg="restore performs `%s` on a non-empty destination without holding all SQLite locks: a concurrent reader can observe a half-written database" % name)


def bytes_(ctx):
    F = ctx.F
    R = ctx.rule("C19.bytes", "K6", "lock_all takes every lock byte of the protocol: rollback mode write-locks RESERVED, PENDING, SHARED; WAL mode write-locks WRITE, CKPT, RECOVER, READ0..4 (and reads DMS)")
    b = F.get(RS + "lock_all")
    if not R.anchor(b, "lock_all", "fn lock_all"):
        return
    locks = [c for c in b.calls if (c.t.get("r") or c.f) == RS + "lock"]
    got = []
    byval = {}
    for cid, cc in F.consts.items():
        if cid.startswith(RS) and "v" in cc:
            byval.setdefault(cc["v"], cid.rsplit("::", 1)[-1])
    for c in locks:
        k = op_const(c.args[2]) if len(c.args) > 2 else None
        if k is None and len(c.args) > 2 and op_place(c.args[2]) is not None:
            # the byte comes out of an array that is iterated (`for b in [RESERVED, PENDING, SHARED]` / a const table)
            names_ = []
            for o in flow.origins(b, op_place(c.args[2]), at=(c.bb, "T")):
                if o.kind == "const" and o.const and "named" in o.const:
                    tbl = F.consts.get(o.const["named"], {})
                    if "arr" in tbl:
                        names_ += [byval.get(v, str(v)) for v in tbl["arr"]]
                    else:
                        names_.append(o.const["named"].rsplit("::", 1)[-1])
            if names_:
                lt_ = None
                for bb2 in b.live_blocks():
                    for s_ in b.blocks[bb2]["s"]:
                        if s_[0] == "A" and s_[2][0] == "agg" and isinstance(s_[2][1], dict) and s_[2][1].get("adt", "").endswith("LockType") and op_local(c.args[1]) == s_[1][0]:
                            lt_ = s_[2][1]["variant"]
                if lt_ is None:
                    for o in (flow.origins(b, op_place(c.args[1]), at=(c.bb, "T")) if op_place(c.args[1]) is not None else ()):
                        if o.kind == "const" and o.const and "agg" in o.const:
                            lt_ = o.const["agg"].rsplit("::", 1)[-1]
                for nm in names_:
                    got.append((nm, lt_, c))
                continue
        name = (k or {}).get("named", "").rsplit("::", 1)[-1]
        val = F.const_value(k)
        lt = None
        org = flow.origins(b, op_place(c.args[1]), at=(c.bb, "T")) if op_place(c.args[1]) is not None else set()
        for o in org:
            if o.kind == "const" and o.const and "agg" in o.const:
                lt = o.const["agg"].rsplit("::", 1)[-1]
        if lt is None:
            for bb2 in b.live_blocks():
                for s in b.blocks[bb2]["s"]:
                    if s[0] == "A" and s[2][0] == "agg" and isinstance(s[2][1], dict) and s[2][1].get("adt", "").endswith("LockType") and op_local(c.args[1]) == s[1][0]:
                        lt = s[2][1]["variant"]
        got.append((name or str(val), lt, c))
    if not R.floor(len(got), 11, "lock-calls", "lock() calls in lock_all"):
        return
    consts = {cid.rsplit("::", 1)[-1]: c.get("v") for cid, c in F.consts.items() if cid.startswith(RS) and "v" in c}
    wal_need = {"WRITE", "CKPT", "RECOVER", "READ0", "READ1", "READ2", "READ3", "READ4"}
    rb_need = {"RESERVED", "PENDING", "SHARED"}
    wl = {n for n, lt, c in got if lt == "Write"}
    R.require(wal_need <= wl, "wal-write-locks", b.where(), "WAL mode write-locks %s" % sorted(wal_need), fail_msg="WAL-mode restore does not write-lock %s: a reader/checkpointer using that slot is not excluded" % sorted(wal_need - wl))
    R.require(rb_need <= wl, "rollback-write-locks", b.where(), "rollback-journal mode write-locks %s" % sorted(rb_need), fail_msg="rollback-mode restore does not write-lock %s" % sorted(rb_need - wl))
    R.require(any(n == "DMS" for n, lt, c in got), "dms", b.where(), "the dead-man-switch byte is locked")
    # each lock()? propagates failure: its Err edge returns without reaching the Ok(Locked) return
    okret = [bb for bb in b.live_blocks() for s in b.blocks[bb]["s"] if s[0] == "A" and s[1] == [0] and s[2][0] == "agg" and isinstance(s[2][1], dict) and s[2][1].get("variant") == "Ok"]
    bad = []
    for n, lt, c in got:
        errs = flow.err_edge_of(b, c)
        # (variant-sensitive: the error returned by an inlined locking helper cannot be matched as Ok by lock_all's own `?`)
        if not errs or any(o in flow.variant_reach(b, e[1]) for e in errs[:1] for o in okret):
            bad.append(n)
    R.require(not bad, "failures-propagate", b.where(), "a lock that cannot be taken makes lock_all fail (no partial locking reported as success)",
              fail_msg="lock_all can report success although locking %s failed" % bad)
    # all constants of the module used
    declared = {k for k in consts if k.isupper() and k not in ("MIN_DB_HDR_READ_LEN",)}
    used = {n for n, lt, c in got}
    R.require(declared <= used | {"MIN_DB_HDR_READ_LEN"}, "all-bytes-used", b.where(), "every declared lock byte is locked somewhere in lock_all (%s)" % sorted(declared),
              fail_msg="declared lock bytes never locked: %s" % sorted(declared - used))
    # the two modes are decided by is_wal_mode
    iw = [c for c in b.calls if (c.t.get("r") or c.f) == RS + "is_wal_mode"]
    R.require(bool(iw), "mode-detection", b.where(), "journal mode is read from the database header under a shared lock")


def copy(ctx):
    F = ctx.F
    R = ctx.rule("C19.copy", "K2", "copy_check succeeds only if exactly the source length was copied, the file was truncated to it and synced")
    b = F.get(RS + "copy_check")
    if not R.anchor(b, "copy_check", "fn copy_check"):
        return
    cp = [c for c in b.calls if c.f.endswith("io::copy::copy") or c.name() == "copy"]
    sl = [c for c in b.calls if c.name() == "set_len"]
    sy = [c for c in b.calls if c.name() in ("sync_all", "sync_data")]
    okret = [bb for bb in b.live_blocks() for s in b.blocks[bb]["s"] if s[0] == "A" and s[1] == [0] and s[2][0] == "agg" and isinstance(s[2][1], dict) and s[2][1].get("variant") == "Ok"]
    if not (R.anchor(cp, "io::copy", "io::copy") and R.anchor(sl, "set_len", "set_len") and R.anchor(sy, "sync", "sync_all") and R.anchor(okret, "ok-return", "Ok(()) return")):
        return
    for name, c in (("set_len", sl[0]), ("sync_all", sy[0])):
        oks = flow.ok_edge_of(b, c)
        R.require(bool(oks) and all(b.edges_dominate(oks, o) for o in okret), name + "-before-ok", c.where(), "%s()? dominates the Ok return" % name,
                  fail_msg="copy_check can return Ok without a successful %s" % name)
    # n != len => Err
    inc = cm.agg_blocks(b, RS + "Error", "InconsistentCopy") or cm.agg_blocks(b, "klukai_types::sqlite3_restore::Error", "InconsistentCopy")
    R.require(bool(inc), "length-check", b.where(), "a short/long copy is reported as InconsistentCopy", fail_msg="copy_check no longer verifies the number of bytes copied")
    if inc:
        R.require(not any(o in b.reachable(inc[0]) for o in okret), "mismatch-is-error", b.where(inc[0]), "a length mismatch never returns Ok")


def running(ctx):
    F = ctx.F
    R = ctx.rule("C19.running", "K2", "`corrosion restore` refuses to run while an agent answers on the admin socket, before touching any file")
    cos = [x for x in F.family(F.get(CLI)) if x.kind == "coroutine"] if F.get(CLI) else []
    b = next((x for x in cos if any((c.t.get("r") or c.f) == RS + "restore" for c in x.calls)), None)
    if not R.anchor(b, "process_cli", "process_cli coroutine calling sqlite3_restore::restore"):
        return
    rs = [c for c in b.calls if (c.t.get("r") or c.f) == RS + "restore"][0]
    iso = [c for c in b.calls if c.f.endswith("Result::<T, E>::is_ok") and b.dominates(c.bb, rs.bb)]
    guard = None
    for c in iso:
        nm = cm.deep_names(b, op_place(c.args[0]), (c.bb, "T"), hops=6)[1]
        if "connect" in nm or "poll" in nm:
            guard = c
    if not R.anchor(guard, "admin-probe", "AdminConn::connect(..).await.is_ok() dominating the restore"):
        return
    te, fe = flow.true_false_targets(b, guard)
    R.require(bool(te) and all(rs.bb not in b.reachable(e[1]) for e in te), "bail-when-running", guard.where(), "if the agent answers, restore bails out",
              fail_msg="restore proceeds although an agent is running on this database")
    # every mutation of the restore arm is dominated by the probe
    muts = [c for c in b.calls if (cm.CONN_SQL.search(c.f) and b.can_reach(guard.bb, c.bb) and b.can_reach(c.bb, rs.bb)) or c.f.endswith("fs::remove_dir_all") and b.can_reach(guard.bb, c.bb)]
    R.require(all(b.dominates(guard.bb, c.bb) for c in muts if b.can_reach(c.bb, rs.bb)), "probe-first", guard.where(), "the probe precedes every statement of the restore arm (%d)" % len(muts))


def _cli_sites(F):
    fam = F.family(F.get(CLI)) if F.get(CLI) else []
    return sqlinv.inventory(F, fam)


def local(ctx):
    F = ctx.F
    R = ctx.rule("C19.local", "K1", "backup strips node-local state from the copy (never from the live database): __corro_members and __corro_subs are cleared on the VACUUM INTO target")
    sites = _cli_sites(F)
    vac = [s for s in sites if s.verb == "VACUUM"]
    mem = [s for s in sites if "__corro_members" in s.writes and s.verb == "DELETE"]
    subs = [s for s in sites if "__corro_subs" in s.writes and s.verb == "DELETE"]
    if not (R.anchor(vac, "vacuum-into", "VACUUM INTO") and R.anchor(mem, "clear-members", "DELETE FROM __corro_members") and R.anchor(subs, "clear-subs", "DELETE FROM __corro_subs")):
        return
    b = vac[0].body
    # connection origins: the live db (opened on db_path) vs the copy (opened on `path`)
    def conn_open(s):
        org = flow.origins(s.body, op_place(s.call.args[0]), at=(s.call.bb, "T"))
        return {o.call.bb for o in org if o.kind == "call" and o.call.f.startswith("rusqlite::Connection::open")}
    live = conn_open(vac[0])
    for s in mem + subs + [x for x in sites if x.body is b and (x.writes or x.ddl) and x.verb != "VACUUM" and b.dominates(vac[0].call.bb, x.call.bb) and b.can_reach(x.call.bb, _backup_end(b, vac[0]))]:
        oc = conn_open(s)
        R.require(bool(oc) and not (oc & live), "on-copy:%s@L%d" % ("+".join(sorted(s.writes | s.ddl)) or s.verb, s.call.line), s.call.where(), "%s runs on the backup copy, not on the live database" % s.verb,
                  fail_msg="backup runs `%s` on the live database connection" % " ".join(s.sql.split())[:50])
    # members delete propagates errors (`?`), i.e. a backup that still contains membership is not reported as success
    errs = flow.err_edge_of(b, mem[0].call)
    R.require(bool(errs), "members-error-propagates", mem[0].call.where(), "failing to clear __corro_members fails the backup")
    R.require("?" in vac[0].sql or ":" in vac[0].sql, "vacuum-target-bound", vac[0].call.where(), "the VACUUM INTO target is a bound parameter")


def _backup_end(b, vac):
    # last SQL site of the backup arm: the wal_checkpoint pragma batch
    ends = [c for c in b.calls if cm.CONN_SQL.search(c.f) and any("wal_checkpoint" in s for s in cm.call_strings(b, c))]
    return ends[0].bb if ends else vac.call.bb


def clock(ctx):
    F = ctx.F
    R = ctx.rule("C19.clock", "K6", "backup and restore enumerate the clock tables with the same query and rewrite site_id in every one of them, in inverse directions (0 -> ordinal, ordinal -> 0)")
    sites = _cli_sites(F)
    enum = [s for s in sites if s.verb == "SELECT" and "__crsql_clock" in s.sql]
    if not R.require(len(enum) == 2, "enumerations", "", "two clock-table enumerations (backup, restore)", fail_msg="expected 2 clock-table enumerations in process_cli, found %d" % len(enum)):
        return
    R.require(" ".join(enum[0].sql.split()) == " ".join(enum[1].sql.split()), "same-query", enum[0].call.where(), "backup and restore use the identical enumeration query",
              fail_msg="backup and restore enumerate clock tables differently: %r vs %r" % (enum[0].sql, enum[1].sql))
    ups = [s for s in sites if s.verb == "UPDATE" and "site_id" in s.sql]
    if not R.require(len(ups) == 2, "updates", "", "two site_id rewrites", fail_msg="expected 2 clock-table UPDATEs, found %d" % len(ups)):
        return
    pats = sorted(" ".join(s.sql.split()) for s in ups)
    fwd = [p for p in pats if re.search(r"SET site_id = \? WHERE site_id = 0", p)]
    bwd = [p for p in pats if re.search(r"SET site_id = 0 WHERE site_id = \?", p)]
    R.require(len(fwd) == 1 and len(bwd) == 1, "inverse-directions", ups[0].call.where(), "backup maps 0 -> ?, restore maps ? -> 0", fail_msg="the two site_id rewrites are not inverses: %s" % pats)
    for s in ups:
        b = s.body
        # inside a loop over the enumerated tables: on a cycle with an Iterator::next whose source derives from the enumeration
        nx = [c for c in b.calls if c.name() == "next" and b.in_loop_with(c.bb, s.call.bb)]
        ok = False
        for c in nx:
            names = cm.deep_names(b, op_place(c.args[0]), (c.bb, "T"), hops=8)[1]
            if "collect" in names or "query_map" in names or "into_iter" in names:
                ok = True
        R.require(ok, "every-table@L%d" % s.call.line, s.call.where(), "the rewrite runs once per enumerated clock table",
                  fail_msg="the site_id rewrite is not inside a loop over all enumerated clock tables")
    # ordinal provenance: backup inserts the site id and uses the RETURNING ordinal; restore uses the ordinal returned by the DELETE
    ret = [s for s in sites if "returning" in s.sql.lower() and "crsql_site_id" in (s.writes | s.reads)]
    R.require(len(ret) >= 3, "returning-ordinals", "", "ordinals/site ids are taken from RETURNING clauses of the crsql_site_id edits (%d)" % len(ret))
