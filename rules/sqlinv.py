"""SQL execution-site inventory: every rusqlite call that carries an SQL string, with the statement's verb/tables and
a classification of the connection/transaction value it runs on (followed through closure upvars)."""
import re

from corrolint import flow
from corrolint.facts import op_place, op_const, op_local
from . import common as cm

_VERB = re.compile(r"^\s*(?:--[^\n]*\n\s*)*([A-Za-z]+)")
_TABLE_PATTERNS = [
    (re.compile(r"\bINSERT\s+(?:OR\s+\w+\s+)?INTO\s+([A-Za-z_\"][\w\".]*)", re.I), "w"),
    (re.compile(r"\bREPLACE\s+INTO\s+([A-Za-z_\"][\w\".]*)", re.I), "w"),
    (re.compile(r"\bUPDATE\s+(?:OR\s+\w+\s+)?([A-Za-z_\"][\w\".]*)\s+SET\b", re.I), "w"),
    (re.compile(r"\bDELETE\s+FROM\s+([A-Za-z_\"][\w\".]*)", re.I), "w"),
    (re.compile(r"\bCREATE\s+(?:TEMP\s+|TEMPORARY\s+)?(?:TABLE|INDEX|UNIQUE\s+INDEX|TRIGGER|VIEW)\s+(?:IF\s+NOT\s+EXISTS\s+)?([A-Za-z_\"][\w\".]*)", re.I), "ddl"),
    (re.compile(r"\bDROP\s+(?:TABLE|INDEX|TRIGGER|VIEW)\s+(?:IF\s+EXISTS\s+)?([A-Za-z_\"][\w\".]*)", re.I), "ddl"),
    (re.compile(r"\bALTER\s+TABLE\s+([A-Za-z_\"][\w\".]*)", re.I), "ddl"),
    (re.compile(r"\bFROM\s+([A-Za-z_\"][\w\".]*)", re.I), "r"),
    (re.compile(r"\bJOIN\s+([A-Za-z_\"][\w\".]*)", re.I), "r"),
]
WRITE_FUNCS = re.compile(r"\bcrsql_(set_db_version|set_ts|set_site_id|begin_alter|commit_alter|as_crr|config_set)\s*\(", re.I)


def parse_sql(sql):
    """(verb, writes:set, reads:set, ddl:set, write_funcs:set)"""
    m = _VERB.match(sql)
    verb = m.group(1).upper() if m else "?"
    w, r, d = set(), set(), set()
    for rx, kind in _TABLE_PATTERNS:
        for t in rx.findall(sql):
            t = t.strip('"').lower()
            if kind == "w":
                w.add(t)
            elif kind == "ddl":
                d.add(t)
            else:
                r.add(t)
    r -= w
    funcs = {f.lower() for f in WRITE_FUNCS.findall(sql)}
    return verb, w, r, d, funcs


def is_sql(s):
    return bool(re.match(r"^\s*(?:--[^\n]*\n\s*)*(SELECT|INSERT|UPDATE|DELETE|CREATE|DROP|ALTER|PRAGMA|BEGIN|COMMIT|ROLLBACK|ATTACH|DETACH|VACUUM|WITH|REPLACE|SAVEPOINT|RELEASE|ANALYZE)\b", s, re.I))


class Site:
    __slots__ = ("body", "call", "sql", "verb", "writes", "reads", "ddl", "funcs", "recv", "dynamic")

    def __repr__(self):
        return "<sql %s w=%s @%s recv=%s>" % (self.verb, sorted(self.writes | self.ddl), self.call.where(), sorted(self.recv))


def classify_conn(F, body, place, at, depth=0, resolve_params=False):
    """kinds of the connection-like value at `place`: set of strings
       tx:<body>:<bb>   value of a transaction begun at that call
       param:<n>:<type> function parameter
       pool:<api>       SplitPool::<api> result (read / write_priority / ...)
       open             rusqlite::Connection::open*
       field:<path>     field of self/arg
       other:<callee>"""
    out = set()
    org = flow.origins(body, place, at=at)
    for o in org:
        if o.kind == "call":
            f = o.call.t.get("r") or o.call.f
            fd = o.call.f
            if cm.TX_BEGIN.search(fd) or cm.TX_BEGIN.search(f):
                out.add("tx:%s:%d" % (body.id, o.call.bb))
            elif cm.TX_WRAP.search(fd):
                sub = classify_conn(F, body, op_place(o.call.args[0]), (o.call.bb, "T"), depth + 1, resolve_params) if op_place(o.call.args[0]) is not None else {"other:new"}
                out |= sub
            elif "SplitPool::" in f:
                out.add("pool:" + re.search(r"SplitPool::(\w+)", f).group(1))
            elif fd.startswith("rusqlite::Connection::open"):
                out.add("open")
            elif fd == "core::future::future::Future::poll":
                out.add("pool:" + (re.search(r"SplitPool::(\w+)", f).group(1) if "SplitPool::" in f else "poll:" + f.rsplit("::", 2)[-2]))
            elif fd.endswith("managed::Pool::<M, W>::get"):
                flds = {x for o2 in cm.operand_origins(body, o.call, 0) for x in o2.field_names()}
                out.add("poolget:" + ",".join(sorted(flds)))
            else:
                out.add("other:" + o.call.name())
        elif o.kind == "arg":
            fn = o.field_names()
            if o.local == 1 and body.kind != "fn" and body.parent and depth < 5:
                # captured upvar: resolve in the parent at the closure-creation site
                parent = F.get(body.parent)
                name = fn[0] if fn else None
                resolved = False
                if parent is not None and name is not None:
                    for bb, bl in enumerate(parent.blocks):
                        for i, s in enumerate(bl["s"]):
                            if s[0] == "A" and s[2][0] == "agg" and isinstance(s[2][1], dict):
                                k = s[2][1]
                                cid = k.get("closure") or k.get("coroutine") or k.get("coroutine_closure")
                                if cid != body.id or name not in k.get("fields", []):
                                    continue
                                p = op_place(s[2][2][k["fields"].index(name)])
                                if p is not None:
                                    out |= classify_conn(F, parent, p, (bb, i), depth + 1, resolve_params)
                                    resolved = True
                if not resolved:
                    out.add("upvar:%s" % name)
            else:
                ty = body.ty(o.local)
                if fn:
                    out.add("field:%s" % ".".join(fn))
                elif resolve_params and body.kind == "fn" and depth < 5:
                    # follow the parameter to every caller's argument
                    callers = F.callers_of(body.id)
                    if not callers:
                        out.add("param:%d:%s" % (o.local, ty))
                    for c in callers:
                        a = c.args[o.local - 1] if o.local - 1 < len(c.args) else None
                        p = op_place(a) if a is not None else None
                        if p is None:
                            out.add("other:const-arg")
                        else:
                            out |= classify_conn(F, c.body, p, (c.bb, "T"), depth + 1, resolve_params)
                else:
                    out.add("param:%d:%s" % (o.local, ty))
        elif o.kind == "yield":
            out.add("other:yield")
        else:
            out.add("other:" + o.kind)
    return out


def inventory(F, bodies=None):
    if bodies is None:
        cached = getattr(F, "_sql_inventory", None)
        if cached is not None:
            return cached
        inv = inventory(F, list(F.bodies.values()))
        F._sql_inventory = inv
        return inv
    sites = []
    for b in (bodies if bodies is not None else F.bodies.values()):
        for c in b.calls:
            if c.noise or not cm.CONN_SQL.search(c.f):
                continue
            strs = [s for s in cm.call_strings(b, c, F)]
            sqls = [s for s in strs if is_sql(s)]
            s = Site()
            s.body, s.call = b, c
            s.dynamic = not sqls
            # format!-built SQL: join the pieces with a placeholder
            if len(sqls) >= 1:
                sql = sqls[0]
                if len(strs) > 1 and strs[0] == sqls[0]:
                    sql = "{}".join(strs)
            else:
                sql = "{}".join(strs)
            s.sql = sql
            s.verb, s.writes, s.reads, s.ddl, s.funcs = parse_sql(sql)
            s.recv = classify_conn(F, b, op_place(c.args[0]), (c.bb, "T")) if op_place(c.args[0]) is not None else {"other:const"}
            sites.append(s)
    return sites
