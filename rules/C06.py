"""C06 — a crash at any point loses no acknowledged write and no sync obligation (structural mechanism only).

Decides: everything a step must persist is written on ONE transaction value (no replicated/bookkeeping DML on a bare
connection in the agent), the transaction has a single commit and the bookkeeping rows precede it; restart reads exactly
those stores; fully buffered versions are re-scheduled at start; durability pragmas are set on every connection kind."""
import re

from corrolint import flow
from corrolint.facts import op_place, op_const, op_local
from . import common as cm
from . import sqlinv, tx
from corrolint import sqlmini
import itertools

TRACKED = {"crsql_changes", "__corro_bookkeeping_gaps", "__corro_seq_bookkeeping", "__corro_buffered_changes", "__corro_state", "__corro_schema", "__corro_members"}
RUNTIME_CRATES = ("klukai_agent", "klukai_types", "corrosion")
# offline tools operating on files of a stopped node / other databases
OUT_OF_SCOPE = re.compile(r"^corrosion::process_cli|^corrosion::command::|^corrosion::tpl|^klukai_types::pubsub::|^klukai_types::sqlite_pool::|^klukai_types::updates::")


def run(ctx):
    ctx.trust("SQLite commits a transaction atomically and durably under journal_mode=WAL / synchronous=NORMAL (loss of the last commits on power loss is outside the property's crash model: process stop)",
              "rusqlite Transaction drop = rollback")
    ctx.assume("crash points themselves are not enumerated; the decided clause is the one-transaction-per-step structure and the reload/writer agreement")
    tx1(ctx)
    onecommit(ctx)
    local(ctx)
    reload_(ctx)
    own(ctx)
    others(ctx)
    pragma(ctx)


def _runtime_sites(F):
    out = []
    for s in sqlinv.inventory(F):
        if s.body.crate not in RUNTIME_CRATES or OUT_OF_SCOPE.search(s.body.id):
            continue
        out.append(s)
    return out


def tx1(ctx):
    F = ctx.F
    R = ctx.rule("C06.tx1", "K1+K2", "every DML / version-setting call on replicated or bookkeeping tables in the running agent executes on a transaction value, never on a bare connection")
    n = 0
    for s in _runtime_sites(F):
        hot = (s.writes & TRACKED) or s.funcs or (s.dynamic and F.root_fn(s.body).id in ("klukai_agent::api::public::execute_statement", "klukai_types::schema::apply_schema"))
        if not hot:
            continue
        n += 1
        recv = sqlinv.classify_conn(F, s.body, op_place(s.call.args[0]), (s.call.bb, "T"), 0, True) if op_place(s.call.args[0]) is not None else {"other:const"}
        ok = bool(recv) and all(r.startswith("tx:") or (r.startswith("param:") and re.search(r"Transaction|Savepoint", r)) for r in recv)
        what = "+".join(sorted((s.writes & TRACKED) | s.funcs)) or "dynamic"
        R.require(ok, "%s@%s" % (what, F.root_fn(s.body).id), s.call.where(), "%s %s runs on %s" % (s.verb, what, sorted(("tx@" + r[3:].rsplit(":", 1)[0].split("::{closure")[0].rsplit("::", 1)[-1]) if r.startswith("tx:") else r for r in recv)),
                  fail_msg="%s on %s in %s runs on %s: not inside a transaction of the step (a crash after it would persist data without its bookkeeping, or vice versa)" % (s.verb, what, s.body.id, sorted(recv)))
    R.floor(n, 8, "dml-sites", "tracked DML / crsql function sites in the runtime")


def onecommit(ctx):
    F = ctx.F
    R = ctx.rule("C06.onecommit", "K2", "each writer body has exactly one commit per transaction begin, on the success path, after all its tracked DML")
    writers = []
    for b in F.bodies.values():
        if b.crate not in RUNTIME_CRATES or OUT_OF_SCOPE.search(b.id):
            continue
        if tx.tx_begins(b):
            # only write-capable begins: those whose connection is not a read-pool connection
            roots = set()
            for c in tx.tx_begins(b):
                if op_place(c.args[0]) is not None:
                    roots |= sqlinv.classify_conn(F, b, op_place(c.args[0]), (c.bb, "T"), 0, True)
            if b.id == "klukai_types::sqlite::CrConn::immediate_transaction":
                continue  # the TX-begin wrapper itself
            if not roots or not any(r.startswith(("pool:write", "pool:dedicated", "param:")) for r in roots):
                continue  # read-pool snapshots and subscription databases are not the node database's writers
            writers.append((b, roots))
    if not R.floor(len(writers), 4, "writer-bodies", "bodies beginning a transaction on a write-capable connection"):
        return
    for b, roots in writers:
        root = F.root_fn(b).id
        begins = [c for c in tx.tx_begins(b) if not c.f.endswith("::savepoint")]
        cs = [c for c in tx.commits(b)]
        saves = [c for c in tx.tx_begins(b) if c.f.endswith("::savepoint")]
        if not begins:
            continue
        for bg in begins:
            key = "tx:%s:%d" % (b.id, bg.bb)
            mine = [c for c in cs if key in tx.tx_roots(F, b, c, 0)]
            if not mine:
                # the tx is handed to a callee / returned (e.g. migrate passes &tx and commits itself)
                R.require(False, "commit@%s" % root, bg.where(), "", fail_msg="the transaction begun in %s is never committed in that body" % b.id) if root not in HANDOFF else R.ok("handoff@%s" % root, bg.where(), "transaction handed off by design: %s" % HANDOFF[root])
                continue
            R.require(len(mine) == 1, "one-commit@%s" % root, mine[0].where(), "one commit of the transaction begun in %s" % root.rsplit("::", 1)[-1],
                      fail_msg="%d commits of one transaction in %s: a step split over two commits is not crash-atomic" % (len(mine), b.id))
            k = mine[0]
            # all tracked DML of this body on this tx precede the commit
            for s in sqlinv.inventory(F, [b]):
                if key in s.recv and ((s.writes & TRACKED) or s.funcs):
                    R.require(not b.can_reach(k.bb, s.call.bb) or b.in_loop_with(k.bb, s.call.bb) and False, "dml-before-commit:%s@%s" % ("+".join(sorted((s.writes & TRACKED) | s.funcs)), root), s.call.where(),
                              "DML precedes the commit", fail_msg="DML on %s is reachable after the commit in %s" % (sorted(s.writes), b.id))


HANDOFF = {}


def local(ctx):
    F = ctx.F
    R = ctx.rule("C06.local", "K2", "local writes: the version bookkeeping (insert_local_changes -> insert_db) is written on the user statements' transaction before its commit")
    fam = F.family(F.get("klukai_agent::api::public::make_broadcastable_changes")) if F.get("klukai_agent::api::public::make_broadcastable_changes") else []
    b = next((x for x in fam if tx.tx_begins(x)), None)
    if not R.anchor(b, "closure", "transaction closure of make_broadcastable_changes"):
        return
    ilc = [c for c in b.calls if (c.t.get("r") or c.f) == "klukai_types::change::insert_local_changes"]
    cs = tx.commits(b)
    if not (R.anchor(ilc, "insert_local_changes", "insert_local_changes call") and R.anchor(cs, "commit", "commit")):
        return
    r1 = tx.tx_roots(F, b, ilc[0], 1)
    r2 = tx.tx_roots(F, b, cs[0], 0)
    R.require(r1 == r2 and all(x.startswith("tx:") for x in r1) and r1, "same-tx", ilc[0].where(), "insert_local_changes runs on the committed transaction",
              fail_msg="insert_local_changes runs on %s but %s is committed" % (sorted(r1), sorted(r2)))
    R.require(b.dominates(ilc[0].bb, cs[0].bb), "before-commit", ilc[0].where(), "bookkeeping is written before the commit",
              fail_msg="the commit is not dominated by insert_local_changes: an acknowledged write could be durable without being booked")
    # every caller of insert_local_changes gives it a transaction
    for c in F.callers_of("klukai_types::change::insert_local_changes"):
        r = tx.tx_roots(F, c.body, c, 1, True)
        R.require(bool(r) and all(x.startswith("tx:") for x in r), "caller-tx@%s" % F.root_fn(c.body).id, c.where(), "insert_local_changes is given a transaction",
                  fail_msg="insert_local_changes is given %s in %s" % (sorted(r), c.body.id))


def reload_(ctx):
    F = ctx.F
    R = ctx.rule("C06.reload", "K6", "the durable stores read at restart (from_conn) are exactly those the writers write inside their transactions")
    b = F.get("klukai_types::agent::BookedVersions::from_conn")
    if not R.anchor(b, "from_conn", "fn BookedVersions::from_conn"):
        return
    reads = set()
    for s in sqlinv.inventory(F, [b]):
        reads |= s.reads
    written = set()
    for s in _runtime_sites(F):
        written |= s.writes
    need = {"__corro_bookkeeping_gaps", "__corro_seq_bookkeeping"}
    R.require(need <= reads and need <= written, "writer-reader-agreement", b.where(), "gaps and seq bookkeeping are both written by the runtime and read by from_conn",
              fail_msg="restart reads %s, runtime writes %s: %s not round-tripped" % (sorted(reads & TRACKED), sorted(written & TRACKED), sorted((need - reads) | (need - written))))
    R.require("crsql_db_versions" in reads, "max-from-crsql", b.where(), "the head version is read from cr-sqlite's own crsql_db_versions (written by the data transaction itself)",
              fail_msg="from_conn no longer derives the head from crsql_db_versions")

    # the reload is complete: every row of the actor is selected, every selected row is consumed, the loops end only at exhaustion
    sites = [s for s in sqlinv.inventory(F, [b]) if s.verb == "SELECT" and s.reads & (need | {"crsql_db_versions"})]
    if R.floor(len(sites), 3, "reload-selects", "reload SELECTs in from_conn"):
        for s in sorted(sites, key=lambda x: x.call.line):
            tbl = sorted(s.reads & (need | {"crsql_db_versions"}))[0]
            try:
                n = [0]
                w = re.sub(r"\?(?!\d)", lambda m: (n.__setitem__(0, n[0] + 1) or "?%d" % n[0]), sqlmini.where_clause(s.sql))
                e = sqlmini.parse_bool(w)
                names = sorted(sqlmini.names(e))
                key = [x for x in names if x in ("site_id", "actor_id")]
                params = [x for x in names if x.startswith("?") or x.startswith(":")]
                bad = None
                if len(key) != 1 or not params:
                    bad = "no actor-key column / parameter in WHERE"
                else:
                    # for every row of the actor (key == first parameter) the predicate must hold, whatever the other columns / parameters are
                    for vals in itertools.product(range(0, 3), repeat=len(names)):
                        env = dict(zip(names, vals))
                        if env[key[0]] != env[params[0]]:
                            continue
                        if not sqlmini.ev(e, env):
                            bad = "row %s excluded" % {k: v for k, v in env.items()}
                            break
                R.require(bad is None, "selects-all-rows:" + tbl, s.call.where(), "WHERE %s keeps every row of the actor" % " ".join(w.split()),
                          fail_msg="the reload of %s filters the actor's rows (WHERE %s; %s): durable bookkeeping is silently dropped at restart and the version is then advertised as held / never re-requested" % (tbl, " ".join(w.split()), bad))
            except sqlmini.ParseError as ex_:
                R.fail("selects-all-rows:" + tbl, s.call.where(), "cannot parse the reload WHERE clause (%s): %s" % (ex_, s.sql[:120]))
        raw_rows(F, R, b, sites)
        nxt = [c for c in b.calls if c.name() == "next" and "rusqlite::row::Rows" in (c.self_ty or c.f)]
        if not nxt:
            nxt = [c for c in b.calls if c.f.startswith("rusqlite::row::Rows") and c.name() == "next"]
        fin = [c for c in b.calls if c.f.endswith("BookedVersions::commit_snapshot")]
        if R.floor(len(nxt), 2, "reload-loops", "Rows::next loops in from_conn") and R.anchor(fin, "commit_snapshot", "bv.commit_snapshot(snap) at the end of from_conn"):
            sinks = {0: [c for c in b.calls if c.f.endswith("BookedVersions::insert_partial")],
                     1: [c for c in b.calls if re.search(r"RangeInclusiveSet::<T.*>::insert$", c.f)]}
            for i, c in enumerate(sorted(nxt, key=lambda x: x.line)[:2]):
                # rows.next()? : the Option is the Continue payload of the `?`
                te = flow.ok_edge_of(b, c)
                start = te[0][1] if te else b.term(c.bb).get("tgt")
                opt_sw = [(sw, m, other) for sw, m, other in _option_switches(b) if sw in b.reachable(start) and b.dominates(c.bb, sw)]
                opt_sw = sorted(opt_sw, key=lambda x: x[0])[:1]
                if not R.anchor(opt_sw, "loop#%d.match" % i, "match on the Option returned by rows.next()?"):
                    continue
                sw, m, other = opt_sw[0]
                none_e, some_t = (sw, m.get(0, other)), m.get(1, other)
                leak = fin[0].bb in flow.variant_reach(b, c.bb, no_edges=[none_e])
                R.require(not leak, "loop#%d.until-exhausted" % i, c.where(), "the reload loop ends only when rows.next() returns None",
                          fail_msg="the reload loop can be left (reaching commit_snapshot) while rows remain: later rows of the actor are not reloaded")
                sk = sinks[i]
                if R.anchor(sk, "loop#%d.sink" % i, "the call recording a reloaded row"):
                    drop = b.can_reach(some_t, c.bb, no_nodes=tuple(x.bb for x in sk))
                    R.require(not drop, "loop#%d.row-recorded" % i, sk[0].where(), "every reloaded row reaches %s" % sk[0].name(),
                              fail_msg="a reloaded row can be skipped without being recorded (path from Some(row) back to rows.next() avoiding %s)" % sk[0].name())


def raw_rows(F, R, b, sites, only=None):
    """each reload SELECT returns the stored rows as they are: plain columns, no aggregate / GROUP BY / DISTINCT / LIMIT.
    (`SELECT db_version, MIN(start_seq), MAX(end_seq) .. GROUP BY db_version` would reload two disjoint received ranges as one
    covering range: the hole between them counts as received and the version is applied - and advertised - incomplete.)"""
    for s in sorted(sites, key=lambda x: x.call.line):
        tbls = sorted(s.reads & {"__corro_bookkeeping_gaps", "__corro_seq_bookkeeping", "crsql_db_versions"})
        if not tbls or (only and tbls[0] not in only):
            continue
        tbl = tbls[0]
        try:
            cols = sqlmini.select_columns(s.sql)
        except sqlmini.ParseError as e:
            R.fail("raw-rows:" + tbl, s.call.where(), "cannot read the column list of the reload SELECT (%s)" % e)
            continue
        fancy = [c for c in cols if not re.match(r"^[A-Za-z_][A-Za-z0-9_]*$", c)]
        clause = re.search(r"\b(GROUP\s+BY|DISTINCT|LIMIT|HAVING|UNION|EXCEPT|INTERSECT)\b", s.sql, re.I)
        R.require(not fancy and not clause, "raw-rows:" + tbl, s.call.where(), "the reload reads the stored rows unaggregated (%s)" % ", ".join(cols),
                  fail_msg="the reload of %s does not read the stored rows one by one (%s%s): ranges that were stored separately are merged or dropped when bookkeeping is rebuilt"
                           % (tbl, "computed columns " + ", ".join(fancy) if fancy else "", (" clause " + clause.group(1)) if clause else ""))


def _option_switches(b):
    out = []
    for bb in b.live_blocks():
        t = b.term(bb)
        if t["t"] != "sw":
            continue
        for s_ in b.blocks[bb]["s"]:
            if s_[0] == "A" and s_[2][0] == "disc" and op_local(t["d"]) == s_[1][0] and re.search(r"core::option::Option<&?rusqlite::row::Row", b.ty(s_[2][1][0])):
                out.append((bb, {v: x for v, x in t["targets"]}, t["else"]))
    return out


def own(ctx):
    F, G = ctx.F, ctx.G
    R = ctx.rule("C06.own", "K2", "setup: the own BookedVersions is loaded from the database under its write lock, acquired before the loader task is spawned")
    cos = [b for b in F.family(F.get("klukai_agent::agent::setup::setup")) if b.kind == "coroutine"] if F.get("klukai_agent::agent::setup::setup") else []
    loader = next((b for b in cos if any((c.t.get("r") or c.f) == "klukai_types::agent::BookedVersions::from_conn" for x in F.family(b) for c in x.calls) and b.parent and F.get(b.parent) in cos), None)
    if not R.anchor(loader, "loader", "the spawned task in setup that loads BookedVersions::from_conn"):
        return
    eg = G.env_guards(loader)
    classes = {g for gs in eg.values() for g in gs}
    R.require(("booked", "w") in classes, "owns-write-guard", loader.where(), "the loader task owns the booked write guard (readers wait until loaded): %s" % sorted(classes),
              fail_msg="the loader task does not own the booked write guard: the own sync state could be advertised before it is loaded from disk")
    parent = F.get(loader.parent)
    # guard acquired in the parent before spawn
    acq = [e for e in G.direct_events(parent) if e[0] == "booked" and e[1] == "w"]
    sp = [c for c, cb, kind in G.callees(parent) if kind == "spawn" and cb.id == loader.id]
    if R.anchor(acq, "write_owned", "booked.write_owned(..).await in setup") and R.anchor(sp, "spawn", "tokio::spawn(loader)"):
        R.require(parent.dominates(acq[0][2], sp[0].bb), "lock-before-spawn", sp[0].where(), "the write lock is acquired before the loader is spawned",
                  fail_msg="the loader is spawned before the booked write lock is held")


def others(ctx):
    F = ctx.F
    R = ctx.rule("C06.others", "K2", "run: every actor found in crsql_site_id or __corro_seq_bookkeeping is reloaded; complete-but-unapplied partials are re-scheduled")
    cos = [b for b in F.family(F.get("klukai_agent::agent::run_root::run")) if b.kind == "coroutine"] if F.get("klukai_agent::agent::run_root::run") else []
    main = next((b for b in cos if any(c.f.endswith("BookieInner::replace_actor") for c in b.calls)), None)
    if not R.anchor(main, "run", "run coroutine calling replace_actor"):
        return
    sq = [s for s in sqlinv.inventory(F, [main])]
    enum = [s for s in sq if "crsql_site_id" in s.reads and "__corro_seq_bookkeeping" in s.reads]
    R.require(bool(enum) and "UNION" in enum[0].sql.upper(), "actor-enumeration", enum[0].call.where() if enum else main.where(), "actors are enumerated from crsql_site_id UNION __corro_seq_bookkeeping",
              fail_msg="the startup actor enumeration no longer unions crsql_site_id with __corro_seq_bookkeeping: actors known only through partials would not be reloaded")
    fam = F.family(main)
    fc = [c for b in fam for c in b.calls if (c.t.get("r") or c.f) == "klukai_types::agent::BookedVersions::from_conn"]
    R.require(bool(fc), "from_conn", main.where(), "each is loaded with BookedVersions::from_conn", fail_msg="run no longer loads other actors' bookkeeping with from_conn")
    ra = [c for c in main.calls if c.f.endswith("BookieInner::replace_actor")]
    sends = [c for b in fam for c in b.calls if re.search(r"CorroSender::<T>::send$", c.f) and "(klukai_types::actor::ActorId, klukai_types::base::CrsqlDbVersion)" in c.self_ty]
    R.require(bool(sends), "reschedule", main.where(), "fully buffered versions are re-sent to tx_apply at startup (guard checked by C03.trigger)",
              fail_msg="startup no longer re-schedules fully buffered versions for application")
    # ... and they are re-sent *whenever* they have no gaps: the zero-gaps edge must reach the creation of the sending task
    from .C03 import _gap_count_switch, _edge_means_zero
    for c in sends:
        b = c.body
        par = F.get(b.parent) if b.parent else None
        if par is None:
            continue
        created = None
        for bb, bl in enumerate(par.blocks):
            for s_ in bl["s"]:
                if s_[0] == "A" and s_[2][0] == "agg" and isinstance(s_[2][1], dict) and (s_[2][1].get("coroutine") == b.id or s_[2][1].get("closure") == b.id):
                    created = bb
        if created is None or par.id != main.id:
            continue

        class _S:
            pass
        st = _S()
        st.bb = created
        sws = _gap_count_switch(par, st)
        if not R.anchor(sws, "reschedule.gap-check", "gaps(..).count() test before re-scheduling at startup"):
            continue
        sw = sws[0]
        zero_t = _edge_means_zero(sw)
        # loop head: the partials iterator's next() dominating the count
        heads = [x for x in par.calls if x.name() == "next" and "PartialVersion" in x.self_ty and par.dominates(x.bb, sw[0])]
        if not R.anchor(heads, "reschedule.loop", "iteration over bv.partials"):
            continue
        miss = par.can_reach(zero_t, heads[-1].bb, no_nodes=(created,))
        R.require(not miss, "reschedule.whenever-complete", par.where(sw[0]), "every reloaded partial with zero gaps reaches the task that sends it to tx_apply",
                  fail_msg="a fully buffered, unapplied version found at startup can be passed over without scheduling its application (path from the zero-gaps edge to the next partial avoiding the send task)")
    # apply loop is spawned
    spawned = [c for c in main.calls if "apply_fully_buffered_changes_loop" in (c.t.get("r") or c.f)]
    R.require(bool(spawned), "apply-loop", main.where(), "apply_fully_buffered_changes_loop is started", fail_msg="the buffered-changes apply loop is no longer started")


def pragma(ctx):
    F = ctx.F
    R = ctx.rule("C06.pragma", "K1", "every agent connection is set up with journal_mode=WAL and synchronous=NORMAL (or stricter)")
    sc = F.get("klukai_types::sqlite::setup_conn")
    if not R.anchor(sc, "setup_conn", "fn setup_conn"):
        return
    strs = [s for s, bb, line in sc.const_strings()]
    txt = " ".join(strs).lower()
    R.require(re.search(r"journal_mode\s*=\s*wal", txt) is not None, "wal", sc.where(), "PRAGMA journal_mode = WAL", fail_msg="setup_conn no longer sets journal_mode = WAL")
    m = re.search(r"synchronous\s*=\s*(\w+)", txt)
    R.require(m is not None and m.group(1) in ("normal", "full", "extra", "1", "2", "3"), "synchronous", sc.where(), "PRAGMA synchronous = %s" % (m.group(1) if m else "?"),
              fail_msg="setup_conn sets synchronous = %s: committed transactions are not durable" % (m.group(1) if m else "<absent>"))
    for want in ("klukai_types::sqlite::rusqlite_to_crsqlite", "klukai_types::sqlite::rusqlite_to_crsqlite_write", "klukai_types::agent::SplitPool::dedicated"):
        wb = F.get(want)
        reach = {x.id for x in ctx.G.reachable_bodies([wb], kinds=("call", "closure_sync"))} if wb is not None else set()
        R.require("klukai_types::sqlite::setup_conn" in reach, "uses-setup_conn@%s" % want.rsplit("::", 1)[-1], "", "%s calls setup_conn" % want.rsplit("::", 1)[-1],
                  fail_msg="%s no longer calls setup_conn (connections of that kind run with default pragmas)" % want)
    # nobody lowers synchronous elsewhere
    low = []
    for b in F.bodies.values():
        if b.crate not in RUNTIME_CRATES:
            continue
        for s, bb, line in b.const_strings():
            if re.search(r"synchronous\s*=\s*(off|0)\b", s, re.I):
                low.append(b.id)
    R.require(not low, "no-sync-off", "", "no `synchronous = OFF` anywhere in the runtime", fail_msg="synchronous = OFF set in %s" % low)
