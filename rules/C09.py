"""C09 — binary codecs round-trip every value and survive arbitrary peer bytes.

Strong on totality: over the call-graph closure D of every decode entry (all workspace `speedy::Readable::read_from`
impls incl. derive expansions, `unpack_columns`, and the functions that call `read_from_buffer`), no panic site, no
peer-derived unchecked allocation, no unchecked UTF-8, no unguarded `bytes::Buf` read.
Structural on round trip: writer/reader call shapes and tag constants agree per codec.
"""
import re
from collections import defaultdict

from corrolint import flow
from corrolint.facts import op_place, op_const, op_local, rvalue_operands
from . import common as cm

READABLE = "speedy::readable::Readable"
WRITABLE = "speedy::writable::Writable"

PANIC_CALLS = re.compile(
    r"^core::panicking::(panic|panic_fmt|panic_display|panic_explicit|panic_nounwind|unreachable_display|assert_failed|panic_str_2015|panic_bounds_check)"
    r"|^std::rt::(begin_panic|panic_fmt)|^core::option::(unwrap_failed|expect_failed)$|^core::result::unwrap_failed$"
    r"|^core::option::Option::<T>::(unwrap|expect)$|^core::result::Result::<T, E>::(unwrap|expect|unwrap_err|expect_err)$"
    r"|^core::slice::index::slice_(start|end)_index_len_fail|^core::str::slice_error_fail|^core::cell::panic_already")
INDEX_CALLS = re.compile(r"^core::ops::index::Index(Mut)?::index(_mut)?$")
ALLOC_CALLS = re.compile(
    r"::with_capacity(_and_hasher|_in)?$|::reserve(_exact)?$|^alloc::vec::from_elem$|::resize(_with)?$|^alloc::vec::Vec::<T>::from_raw_parts")
UTF8_UNCHECKED = re.compile(r"from_utf8_unchecked(_mut)?$|from_utf16_unchecked|from_boxed_utf8_unchecked")
READER_READ = re.compile(
    r"^speedy::readable::Readable::read_from$|^speedy::reader::Reader::(read_u8|read_u16|read_u32|read_u64|read_i8|read_i16|read_i32|read_i64|read_u128|read_i128|read_value|peek_u8|peek_u16|peek_u32|peek_u64|read_u64_varint)$"
    r"|^bytes::buf::buf_impl::Buf::get_")
BUF_CONSUME = re.compile(r"^bytes::buf::buf_impl::Buf::(get_\w+|advance|copy_to_slice|copy_to_bytes|try_get_\w+)$")
BUF_CHECK = re.compile(r"^bytes::buf::buf_impl::Buf::(remaining|has_remaining)$|^core::slice::<impl \[T\]>::(len|is_empty)$")
INT_TY = re.compile(r"^(usize|u8|u16|u32|u64|u128|isize|i8|i16|i32|i64|i128)$")


def decode_closure(F, G):
    entries = [b for b in F.bodies.values() if b.impl_trait == READABLE and b.id.endswith("::read_from")]
    entries += [b for b in F.bodies.values() if b.id.endswith("pubsub::unpack_columns")]
    # functions that call read_from_buffer*/read_from_stream (the decode sites proper)
    sites = []
    for b in F.bodies.values():
        for c in b.calls:
            if c.f.startswith("speedy::readable::Readable::read_from_buffer") or c.f.startswith("speedy::readable::Readable::read_from_stream") \
                    or c.f.startswith("speedy::readable::Readable::read_with_length_from_buffer"):
                sites.append((b, c))
    D = G.reachable_bodies(entries, kinds=("call", "closure_sync"))
    return entries, sites, D


def run(ctx):
    F, G = ctx.F, ctx.G
    ctx.trust("speedy 0.8.7 Reader::read_vec/read_bytes/Vec<T>::read_from are bounded by the remaining input when T::minimum_bytes_needed() > 0 (read in source; the proviso is C09.vecmin)",
              "bytes::Buf getters panic on underflow (hence must be guarded)", "std panicking API list",
              "third-party datagram decoders (foca/bincode) are outside the workspace and not analysed")
    ctx.assume("value-level round-trip equality and byte-compatibility with cr-sqlite's crsql_pack_columns are not decided",
               "arithmetic-overflow asserts are debug-build panics only; listed per function under C09.ovf")
    entries, sites, D = decode_closure(F, G)
    R0 = ctx.rule("C09.entries", "K1", "decode entry inventory: workspace Readable impls, unpack_columns, read_from_buffer call sites")
    R0.floor(len(entries), 15, "readable-impls", "workspace `Readable::read_from` impls + unpack_columns")
    want_sites = {"klukai_types::broadcast::UniPayload", "klukai_types::broadcast::BiPayload", "klukai_types::sync::SyncMessage"}
    got = {c.self_ty for b, c in sites}
    for w in sorted(want_sites):
        R0.require(w in got, "decode-site:" + w.rsplit("::", 1)[-1], "", "a decode site for %s exists (read_from_buffer)" % w,
                   fail_msg="no read_from_buffer call for %s found: decode entry moved; re-anchor the inventory" % w)
    hand = sorted(b.id for b in entries if not b.mac)
    R0.ok("hand-written", "", "%d hand-written + %d derived Readable impls; closure D = %d bodies" % (len(hand), len(entries) - len(hand), len(D)))
    ctx.notes.append({"decode_closure": sorted(b.id for b in D)[:80], "hand_written_readables": hand})
    panic_rule(ctx, D)
    alloc_rule(ctx, D)
    utf8_rule(ctx, D)
    buf_rule(ctx, D)
    ovf_rule(ctx, D)
    shape_rule(ctx)
    len_rule(ctx)
    eof_rule(ctx)
    pack_rule(ctx)
    vecmin_rule(ctx)


def _fn(b):
    return b.id


# ------------------------------------------------------------------------------------------------ panic
def panic_rule(ctx, D, R=None):
    F = ctx.F
    R = R or ctx.rule("C09.panic", "K8", "no panic site (panic!/unreachable!/assert!/unwrap/expect/indexing/bounds/div-by-zero) is reachable in the decode closure")
    n = 0
    for b in D:
        live = b.live_blocks()
        for c in b.calls:
            if c.noise:
                continue
            n += 1
            if PANIC_CALLS.search(c.f):
                what = c.f.rsplit("::", 1)[-1]
                msg = _panic_message(b, c)
                R.fail("%s:%s%s" % (_fn(b), what, (":" + msg) if msg else ""), c.where(),
                       "decode path can panic: %s in %s%s" % (c.f, b.id, (' ("%s")' % msg) if msg else ""))
            elif INDEX_CALLS.search(c.f):
                st = c.self_ty
                if re.match(r"^(\[|alloc::vec::Vec<|&\[|str$|alloc::string::String|std::collections::|bytes::)", st) or st.startswith("&mut ["):
                    # constant full ranges (..) cannot panic
                    aty = b.ty(op_local(c.args[1])) if len(c.args) > 1 and op_local(c.args[1]) is not None else ""
                    if aty == "core::ops::range::RangeFull":
                        continue
                    if _index_guarded(b, c):
                        R.ok("%s:index-guarded" % _fn(b), c.where(), "indexing %s[%s] dominated by a length check" % (st, aty))
                        continue
                    R.fail("%s:index<%s>" % (_fn(b), aty or "?"), c.where(), "decode path indexes %s with %s without a dominating length check in %s" % (st, aty, b.id))
        for bb in live:
            t = b.term(bb)
            if t["t"] == "assert" and t["msg"] in ("BoundsCheck", "DivisionByZero", "RemainderByZero"):
                R.fail("%s:assert-%s" % (_fn(b), t["msg"]), b.where(bb), "decode path has a %s panic edge in %s" % (t["msg"], b.id))
    R.ok("scan", "", "%d calls in %d decode-closure bodies scanned for panic sites" % (n, len(D)), nontrivial=n > 0)


def _panic_message(b, c):
    # first string piece of the format args (promoted constants)
    for pr in b.promoted:
        for k in pr:
            s = k.get("s")
            if s and len(s) > 4 and c.line:
                return s.strip()[:40]
    return ""


def _index_guarded(b, c):
    """slice index `buf[0..len]` guarded by a dominating comparison involving `remaining()`/`len()` whose failing
    edge does not reach the index"""
    for g in b.calls:
        if not BUF_CHECK.search(g.f):
            continue
        for sw, neg in _switches_from(b, g):
            if b.dominates(sw, c.bb):
                succs = b.succ[sw]
                if any(not b.can_reach(s, c.bb) for s in succs):
                    if not _consumes_between(b, sw, c.bb, exclude_bb=c.bb, only_len_changing=True):
                        return True
    return False


def _switches_from(b, call):
    """SwitchInt blocks whose discriminant derives from the result of `call` (through comparisons/casts/not)"""
    tainted = {call.dest[0]}
    changed = True
    while changed:
        changed = False
        for bl in b.blocks:
            for s in bl["s"]:
                if s[0] == "A" and len(s[1]) == 1 and s[1][0] not in tainted:
                    for op in rvalue_operands(s[2]):
                        l = op_local(op)
                        if l in tainted:
                            tainted.add(s[1][0])
                            changed = True
                            break
        for bb2, bl in enumerate(b.blocks):
            t = bl["term"]
            if t["t"] == "call" and t["dest"][0] not in tainted and re.search(r"core::cmp::Partial(Ord|Eq)::|core::cmp::Ord::cmp", t.get("f", "")):
                if any(op_local(a) in tainted for a in t["args"]):
                    tainted.add(t["dest"][0])
                    changed = True
    out = []
    for bb in b.live_blocks():
        t = b.term(bb)
        if t["t"] == "sw" and op_local(t["d"]) in tainted:
            out.append((bb, False))
    return out


_CONSUMERS = {}


def _consuming_bodies(F):
    """ids of workspace bodies that (transitively) perform a bytes::Buf consuming read: a call to one of them consumes too"""
    key = id(F)
    if key in _CONSUMERS:
        return _CONSUMERS[key]
    direct = set()
    callers = defaultdict(set)
    for b in F.bodies.values():
        for bl in b.blocks:
            t = bl["term"]
            if t["t"] != "call":
                continue
            if BUF_CONSUME.search(t.get("f", "")):
                direct.add(b.id)
            callers[t.get("r") or t.get("f")].add(b.id)
    out = set(direct)
    work = list(direct)
    while work:
        x = work.pop()
        for y in callers.get(x, ()):
            if y not in out:
                out.add(y)
                work.append(y)
    _CONSUMERS[key] = out
    return out


def _is_consume(F, c):
    return bool(BUF_CONSUME.search(c.f)) or (F is not None and (c.t.get("r") or c.f) in _consuming_bodies(F))


_F_FOR_BUF = [None]


def _consumes_between(b, frm, to, exclude_bb=None, only_len_changing=False):
    """is there a buffer-consuming call (direct, or a call to a workspace helper that consumes) on some path from block `frm`
    (exclusive) to block `to` (exclusive)?"""
    for c in b.calls:
        if not _is_consume(_F_FOR_BUF[0], c):
            continue
        if c.bb in (frm, to) or c.bb == exclude_bb:
            continue
        if b.can_reach(frm, c.bb) and b.can_reach(c.bb, to, no_nodes=(frm,)):
            return True
    return False


# ------------------------------------------------------------------------------------------------ alloc
def alloc_rule(ctx, D, R=None):
    F = ctx.F
    R = R or ctx.rule("C09.alloc", "K8+K4", "no allocation size in the decode closure derives from bytes read from the peer unless clamped (min) or checked by a dominating comparison with an error edge")
    n = 0
    stop_min = lambda call: bool(re.search(r"core::cmp::(min|Ord::min)$|::clamp$|::saturating_|::checked_", call.f))
    for b in D:
        for c in b.calls:
            if c.noise or not ALLOC_CALLS.search(c.f):
                continue
            # size argument: last integer-typed argument
            size_ops = [a for a in c.args if op_place(a) is not None and INT_TY.match(b.ty(op_place(a)[0]) if len(op_place(a)) == 1 else "usize")]
            if not size_ops:
                continue
            n += 1
            a = size_ops[-1]
            org = flow.origins(b, op_place(a), at=(c.bb, "T"), stop=stop_min)
            peer = [o for o in org if o.kind == "call" and READER_READ.search(o.call.f)]
            if not peer:
                R.ok("%s:%s" % (_fn(b), c.name()), c.where(), "allocation size not peer-derived (origins: %s)" % sorted({_okind(o) for o in org}))
                continue
            guarded = all(_guarded_by_compare(b, o.call, c) for o in peer)
            R.require(guarded, "%s:%s<-%s" % (_fn(b), c.name(), ",".join(sorted({b.lname(o.call.dest[0]) for o in peer}))), c.where(),
                      "peer-derived allocation size is checked by a dominating comparison",
                      fail_msg="%s(%s) in %s reserves a capacity read from the peer (%s) without clamp or check: a short frame can demand an arbitrary allocation / capacity-overflow panic"
                               % (c.fi.split("::<")[0].rsplit("::", 2)[-2] + "::" + c.name(), b.lname(op_place(a)[0]), b.id,
                                  ", ".join(sorted({"%s at line %d" % (o.call.fi, o.call.line) for o in peer}))))
    R.ok("scan", "", "%d allocation-size arguments in the decode closure traced to their origins" % n, nontrivial=n > 0)


def _okind(o):
    if o.kind == "call":
        return "call:" + o.call.name()
    if o.kind == "const":
        return "const"
    return o.kind


def _guarded_by_compare(b, read_call, alloc_call):
    for sw, _ in _switches_from(b, read_call):
        if sw == alloc_call.bb:
            continue
        if b.dominates(sw, alloc_call.bb) and any(not b.can_reach(s, alloc_call.bb) for s in b.succ[sw]):
            # the `?` on the read itself is also a switch derived from the read: exclude discriminant switches of Try::branch
            if _is_try_switch(b, sw):
                continue
            return True
    return False


def _is_try_switch(b, sw):
    for s in b.blocks[sw]["s"]:
        if s[0] == "A" and s[2][0] == "disc":
            return True
    return False


# ------------------------------------------------------------------------------------------------ utf8
def utf8_rule(ctx, D, R=None):
    R = R or ctx.rule("C09.utf8", "K8", "no unchecked UTF-8 constructor is reachable in the decode closure")
    n = 0
    for b in D:
        for c in b.calls:
            n += 1
            if UTF8_UNCHECKED.search(c.f):
                R.fail("%s:%s" % (_fn(b), c.name()), c.where(), "decode path builds text with %s in %s: peer bytes become a str without validation" % (c.fi, b.id))
    R.ok("scan", "", "%d calls scanned, unchecked UTF-8 constructors are absent unless reported" % n, nontrivial=n > 0)


# ------------------------------------------------------------------------------------------------ buf
def _buf_guard(b, site_bb):
    """(ok, why): block `site_bb` is dominated by a remaining()/has_remaining() test with an error edge and no consuming read in between"""
    why = "no dominating remaining()/has_remaining() check"
    for g in b.calls:
        if not BUF_CHECK.search(g.f) or not g.f.startswith("bytes::"):
            continue
        for sw, _ in _switches_from(b, g):
            if not b.dominates(sw, site_bb):
                continue
            if not any(not b.can_reach(s, site_bb) for s in b.succ[sw]):
                continue
            if _consumes_between(b, sw, site_bb):
                why = "another consuming read lies between the check and this read"
                continue
            return True, ""
    return False, why


def _buf_guard_via_callers(F, D, b, c):
    """wrapper idiom: a private helper whose read is the first consuming read on every path from its entry is guarded when
    every call site of the helper is guarded in its caller"""
    if any(x is not c and _is_consume(F, x) and b.can_reach(x.bb, c.bb) and x.bb != c.bb for x in b.calls):
        return False, "the helper consumes before this read"
    sites = [x for x in F.callers_of(b.id)]
    if not sites:
        return False, "no dominating remaining() check and no caller found"
    for x in sites:
        if x.body not in D:
            return False, "called from %s outside the decode closure" % x.body.id
        ok, why = _buf_guard(x.body, x.bb)
        if not ok:
            return False, "call site %s: %s" % (x.where(), why)
    return True, "guarded at its %d call site(s)" % len(sites)


def _zero_excluded(b, c, place):
    """a dominating test of the width against 0 (==, !=, <1, >=1, >0, <=0) whose zero edge avoids the read"""
    al = _alias_locals(b, place[0])
    for bb in b.live_blocks():
        t = b.term(bb)
        if t["t"] != "sw" or not b.dominates(bb, c.bb):
            continue
        d = op_local(t["d"])
        # direct switch on the width: `match intlen { 0 => .., _ => read }`
        if d in al and len(op_place(t["d"])) == 1:
            m = {v: x for v, x in t["targets"]}
            if 0 in m and not b.can_reach(m[0], c.bb, no_nodes=(bb,)):
                return True
        for dd in b.defs.get(d, []):
            if dd[2] == "assign" and dd[3][1][0] == "bin" and dd[3][1][1] in ("Eq", "Ne", "Gt", "Ge", "Lt", "Le"):
                op = dd[3][1][1]
                ops = dd[3][1][2:4]
                ls = [op_local(o) for o in ops]
                ks = [op_const(o) for o in ops]
                if ls[0] in al and ks[1] is not None and "v" in ks[1]:
                    k, lhs = ks[1]["v"], True
                elif ls[1] in al and ks[0] is not None and "v" in ks[0]:
                    k, lhs = ks[0]["v"], False
                else:
                    continue
                e = flow.bool_edges(b, bb)
                if e is None:
                    continue
                holds0 = flow.int_relation_holds(op, k, lhs, 0)
                zero_t = e[0] if holds0 else e[1]
                pos_t = e[1] if holds0 else e[0]
                if all(flow.int_relation_holds(op, k, lhs, v) != holds0 for v in range(1, 9)) and not b.can_reach(zero_t, c.bb, no_nodes=(bb,)) and b.can_reach(pos_t, c.bb, no_nodes=(bb,)) | (pos_t == c.bb):
                    return True
    return False


def buf_rule(ctx, D, R=None):
    R = R or ctx.rule("C09.buf", "K8+K2", "every bytes::Buf consuming read in the decode closure is dominated by a remaining()/len check with an error edge and no other consuming read in between (directly, or at every call site of a private read helper); get_int/get_uint widths are <= 8 and signed reads exclude width 0")
    n = 0
    F = ctx.F
    _F_FOR_BUF[0] = F
    Dset = set(D)
    for b in D:
        cons = [c for c in b.calls if BUF_CONSUME.search(c.f)]
        for c in cons:
            n += 1
            ok, why = _buf_guard(b, c.bb)
            how = "a remaining() check"
            if not ok:
                ok2, why2 = _buf_guard_via_callers(F, Dset, b, c)
                if ok2:
                    ok, how = True, "remaining() checks " + why2
                else:
                    why = why + "; " + why2
            inst = "%s:%s#%d" % (_fn(b), c.name(), _ordinal(cons, c))
            R.require(ok, inst, c.where(), "%s guarded by %s" % (c.name(), how),
                      fail_msg="%s in %s is not guarded: %s (bytes::Buf panics on underflow)" % (c.fi, b.id, why))
            if c.name() in ("get_int", "get_uint", "get_int_le", "get_uint_le", "get_int_ne", "get_uint_ne"):
                w = c.args[1]
                k = op_const(w)
                kv = ctx.F.const_value(k) if k is not None else None
                wok = k is not None and (kv or 99) <= 8
                if not wok and op_place(w) is not None:
                    wok = _width_bounded(b, c, op_place(w)) or _width_bounded_at_callers(F, Dset, b, c, op_place(w))
                R.require(wok, inst + ".width", c.where(), "width argument of %s is bounded by 8" % c.name(),
                          fail_msg="%s(width) in %s: width is peer-derived and never compared with 8 (bytes panics for width > 8)" % (c.name(), b.id))
                if c.name().startswith("get_int"):
                    zok = (kv is not None and kv >= 1) or (op_place(w) is not None and _zero_excluded(b, c, op_place(w)))
                    R.require(zok, inst + ".width-nonzero", c.where(), "width 0 never reaches %s (a zero-length integer is decoded without the read)" % c.name(),
                              fail_msg="%s(width) in %s can be called with width 0: bytes' sign extension shifts by 64 and panics in builds with overflow checks "
                                       "(packed Integer(0), empty text and empty blob all encode width 0)" % (c.name(), b.id))
    R.ok("scan", "", "%d bytes::Buf consuming reads inspected" % n, nontrivial=n > 0)


def _width_bounded_at_callers(F, D, b, c, place, depth=0):
    """the width is a parameter of a private helper: bounded at every call site (or, if the caller merely forwards its own
    parameter, at the caller's call sites)"""
    if len(place) != 1 or not (1 <= place[0] <= b.argc):
        al = _alias_locals(b, place[0])
        ps = [l for l in al if 1 <= l <= b.argc]
        if not ps:
            return False
        pi = ps[0]
    else:
        pi = place[0]
    sites = F.callers_of(b.id)
    if not sites:
        return False
    for x in sites:
        if x.body not in D:
            return False
        a = x.args[pi - 1]
        if op_const(a) is not None:
            if (F.const_value(op_const(a)) or 99) > 8:
                return False
            continue
        if op_place(a) is None:
            return False
        if _width_bounded(x.body, x, op_place(a)):
            continue
        if depth < 3 and _width_bounded_at_callers(F, D, x.body, x, op_place(a), depth + 1):
            continue
        return False
    return True


def _ordinal(lst, c):
    same = [x for x in lst if x.name() == c.name()]
    same.sort(key=lambda x: x.bb)
    return same.index(c)


def _width_bounded(b, c, place):
    """a dominating comparison of the width local with a constant <= 8 whose failing edge avoids the read"""
    org_locals = _alias_locals(b, place[0])
    for bb in b.live_blocks():
        t = b.term(bb)
        if t["t"] != "sw" or not b.dominates(bb, c.bb):
            continue
        if not any(not b.can_reach(s, c.bb) for s in b.succ[bb]):
            continue
        # discriminant defined by a comparison (BinOp Gt/Ge/Lt/Le) between width alias and const <= 8
        d = op_local(t["d"])
        for dd in b.defs.get(d, []):
            if dd[2] == "assign" and dd[3][1][0] == "bin" and dd[3][1][1] in ("Gt", "Ge", "Lt", "Le"):
                ops = dd[3][1][2:4]
                ls = [op_local(o) for o in ops]
                ks = [op_const(o) for o in ops]
                if any(l in org_locals for l in ls if l is not None) and any(k is not None and k.get("v", 99) <= 9 for k in ks):
                    return True
    return False


def _alias_locals(b, l):
    out = {l}
    changed = True
    while changed:
        changed = False
        for bl in b.blocks:
            for s in bl["s"]:
                if s[0] == "A" and len(s[1]) == 1 and s[2][0] in ("use", "cast"):
                    op = s[2][1] if s[2][0] == "use" else s[2][2]
                    src = op_local(op)
                    if src in out and s[1][0] not in out:
                        out.add(s[1][0]); changed = True
                    if s[1][0] in out and src is not None and src not in out:
                        out.add(src); changed = True
    return out


# ------------------------------------------------------------------------------------------------ overflow (informational baseline)
OVF_BASELINE = None  # filled from the frozen table below


def ovf_rule(ctx, D):
    R = ctx.rule("C09.ovf", "K8", "arithmetic-overflow panic edges (debug builds) in the decode closure stay within the frozen per-function baseline")
    seen = defaultdict(int)
    for b in D:
        for bb in b.live_blocks():
            t = b.term(bb)
            if t["t"] == "assert" and t["msg"].startswith("Overflow"):
                if t.get("op") in ("Shl", "Shr") and _const_shift(b, t):
                    continue  # shift by a literal amount below the bit width cannot fail
                seen[(b.id, t.get("op", "?"))] += 1
    for (fid, op), n in sorted(seen.items()):
        base = OVF_FROZEN.get((fid, op), 0)
        R.require(n <= base, "%s:%s" % (fid, op), "", "%d overflow-checked `%s` in %s (frozen baseline %d)" % (n, op, fid, base),
                  fail_msg="new overflow-checked `%s` on a decode path in %s (%d > frozen %d): peer-controlled operands can panic a debug build" % (op, fid, n, base))
    R.ok("scan", "", "%d (function, op) pairs with overflow asserts in the decode closure" % len(seen), nontrivial=False)


def _const_shift(b, t):
    l = op_local(t["cond"])
    for d in b.defs.get(l, []):
        if d[2] == "assign" and d[3][1][0] == "bin" and d[3][1][1] == "Lt":
            lhs = d[3][1][2]
            k = op_const(lhs)
            if k is not None:
                return True
            ll = op_local(lhs)
            org = flow.origins(b, [ll], at=(d[0], d[1])) if ll is not None else set()
            return bool(org) and all(o.kind == "const" for o in org)
    return False


# frozen after reading each site (none today operates on unchecked peer-derived operands)
OVF_FROZEN = {}


# ------------------------------------------------------------------------------------------------ shapes
def _codec_bodies(F, type_suffix):
    r = [b for b in F.bodies.values() if b.impl_trait == READABLE and b.id.endswith("::read_from") and (b.impl_self or "").endswith(type_suffix)]
    w = [b for b in F.bodies.values() if b.impl_trait == WRITABLE and b.id.endswith("::write_to") and (b.impl_self or "").endswith(type_suffix)]
    return (r[0] if len(r) == 1 else None), (w[0] if len(w) == 1 else None)


def _io_calls(b, kind):
    if kind == "r":
        rx = re.compile(r"^speedy::readable::Readable::read_from$|^speedy::reader::Reader::read_")
    else:
        rx = re.compile(r"^speedy::writable::Writable::write_to$|^speedy::writer::Writer::write_")
    return [c for c in b.calls if rx.search(c.f)]


_LENBYTES = re.compile(r"^(\[u8\]|alloc::vec::Vec<u8>|smallvec::SmallVec<\[u8; \d+\]>|str|alloc::string::String|compact_str::CompactString|bytes::bytes::Bytes)$")


def _io_type(c, kind):
    """canonical token list of one reader/writer call"""
    n = c.name()
    if n in ("read_from", "write_to"):
        t = c.self_ty
        t = re.sub(r"^&+", "", t)
        t = t.replace("'_ ", "").replace("'a ", "")
        if _LENBYTES.match(t):
            return ["u32", "bytes"]
        t = re.sub(r"^core::option::Option<(.*)>$", r"Option<\1>", t)
        return [t]
    m = re.match(r"(read|write)_(\w+)", n)
    if m:
        ty = m.group(2)
        if ty in ("vec", "bytes", "slice", "value"):
            return ["bytes"]
        return [ty]
    return [n]


def _arm_shapes(b, kind):
    """per variant tag -> canonical sequence of I/O types, loops as (...)*"""
    io = _io_calls(b, kind)
    if not io:
        return None
    io_by_bb = {c.bb: c for c in io}
    # tag switch: reader = switch on the value of the first read; writer = switch on the discriminant of *self
    first = None
    tag_sw = None
    if kind == "r":
        cand = [c for c in io if b.dominates(c.bb, min(x.bb for x in io) if False else c.bb)]
        # the first read is the one dominating all others
        for c in io:
            if all(b.dominates(c.bb, o.bb) for o in io):
                first = c
                break
        if first is None or _io_type(first, kind) != ["u8"]:
            return {"*": _linear(b, io, 0, kind)}
        tainted, _s = flow.taint(b, [first.dest[0]])
        org_sw = [bb for bb in sorted(b.live_blocks()) if b.term(bb)["t"] == "sw" and op_local(b.term(bb)["d"]) in tainted
                  and b.term(bb).get("dty") == "u8"]
        if not org_sw:
            return {"*": _linear(b, io, 0, kind)}
        tag_sw = org_sw[0]
        t = b.term(tag_sw)
        arms = {v: tgt for v, tgt in t["targets"]}
        arms["_"] = t["else"]
        io = [c for c in io if c is not first]
    else:
        for bb in sorted(b.live_blocks()):
            t = b.term(bb)
            if t["t"] == "sw" and any(s[0] == "A" and s[2][0] == "disc" and s[2][1][0] == 1 for s in b.blocks[bb]["s"]):
                tag_sw = bb
                break
        if tag_sw is None:
            return {"*": _linear(b, io, 0, kind)}
        t = b.term(tag_sw)
        arms = {("v%d" % v): tgt for v, tgt in t["targets"]}
    out = {}
    for tag, start in arms.items():
        reach = b.reachable(start, no_nodes=(tag_sw,))
        arm_io = [c for c in io if c.bb in reach]
        # calls shared by every arm (after the merge) belong to all arms
        seq = _linear(b, arm_io, start, kind)
        if kind == "w":
            # writer arm: first written u8 constant is the tag
            tagv = None
            if seq and seq[0].startswith("u8="):
                tagv = int(seq[0][3:])
                seq = seq[1:]
            out[tagv if tagv is not None else tag] = seq
        else:
            out[tag] = seq
    return out


def _const_int(b, c, argi):
    if argi >= len(c.args):
        return None
    k = op_const(c.args[argi])
    if k is not None:
        return k.get("v")
    pl = op_place(c.args[argi])
    if pl is None:
        return None
    org = flow.origins(b, pl, at=(c.bb, "T"))
    if len(org) != 1:
        return None
    o = list(org)[0]
    if o.kind != "const" or not o.const:
        return None
    if "v" in o.const:
        return o.const["v"]
    if "promoted" in o.const:
        pr = b.promoted[o.const["promoted"]] if o.const["promoted"] < len(b.promoted) else []
        vs = [k["v"] for k in pr if "v" in k]
        if len(vs) == 1:
            return vs[0]
    return None


def _rpo_index(b, start, bb):
    order = _rpo(b, start)
    return order.get(bb, 10 ** 6)


def _rpo(b, start):
    seen = set()
    post = []
    stack = [(start, iter(b.succ[start]))]
    seen.add(start)
    while stack:
        n, it = stack[-1]
        adv = False
        for s in it:
            if s not in seen:
                seen.add(s)
                stack.append((s, iter(b.succ[s])))
                adv = True
                break
        if not adv:
            post.append(n)
            stack.pop()
    post.reverse()
    return {n: i for i, n in enumerate(post)}


def _linear(b, io, start, kind):
    """I/O calls in reverse post-order; calls inside a natural loop are wrapped as ( ... )*"""
    if not io:
        return []
    order = _rpo(b, start)
    io = sorted(io, key=lambda c: order.get(c.bb, 10 ** 6))
    seq = []
    in_loop_prev = None
    for c in io:
        toks = _io_type(c, kind)
        if kind == "w" and toks == ["u8"]:
            # constant tag written through Writable / write_u8
            argi = 0 if c.name() == "write_to" else 1
            v = _const_int(b, c, argi)
            if v is not None:
                toks = ["u8=%d" % v]
        loop = any(b.can_reach(s_, c.bb) for s_ in b.succ[c.bb])  # on a cycle
        key = None
        if loop:
            # identify the loop by its smallest block on a common cycle
            key = min(x for x in b.live_blocks() if x == c.bb or (b.can_reach(c.bb, x) and b.can_reach(x, c.bb)))
        if key != in_loop_prev:
            if in_loop_prev is not None:
                seq.append(")*")
            if key is not None:
                seq.append("(")
            in_loop_prev = key
        seq.extend(toks)
    if in_loop_prev is not None:
        seq.append(")*")
    return seq


HAND_CODECS = ["broadcast::Changeset", "sync::SyncStateV1", "sync::SyncNeedV1", "api::SqliteValue", "broadcast::Timestamp",
               "actor::ActorId", "actor::ClusterId", "base::CrsqlDbVersion", "base::CrsqlSeq", "api::TableName", "api::ColumnName"]


def shape_rule(ctx):
    F = ctx.F
    R = ctx.rule("C09.shape", "K6", "hand-written codecs: per variant tag the ordered shape of write_to calls equals the shape of read_from calls; tag constants coincide")
    found = 0
    for suffix in HAND_CODECS:
        r, w = _codec_bodies(F, suffix)
        if r is None or w is None:
            continue
        found += 1
        rs, ws = _arm_shapes(r, "r"), _arm_shapes(w, "w")
        if rs is None or ws is None:
            R.fail(suffix + ".shape", r.where(), "could not extract the I/O shape of %s (rule undischargeable)" % suffix)
            continue
        rtags = {k: v for k, v in rs.items() if k != "_"}
        # length prefixes: usize <-> usize; element shapes
        if set(rtags) == {"*"} or set(ws) == {"*"}:
            a, bseq = rs.get("*", []), ws.get("*", [])
            R.require(_norm(a) == _norm(bseq), suffix, r.where(), "%s: read shape %s == write shape %s" % (suffix, _norm(a), _norm(bseq)),
                      fail_msg="%s: reader shape %s differs from writer shape %s" % (suffix, _norm(a), _norm(bseq)))
            continue
        R.require(set(rtags) == set(ws), suffix + ".tags", r.where(), "%s: reader tags %s == writer tags %s" % (suffix, sorted(map(str, rtags)), sorted(map(str, ws))),
                  fail_msg="%s: reader accepts tags %s but writer emits %s" % (suffix, sorted(map(str, rtags)), sorted(map(str, ws))))
        for tag in sorted(set(rtags) & set(ws), key=str):
            a, bseq = _norm(rtags[tag]), _norm(ws[tag])
            R.require(a == bseq, "%s.tag%s" % (suffix, tag), r.where(), "%s tag %s: read %s == write %s" % (suffix, tag, a, bseq),
                      fail_msg="%s tag %s: reader shape %s differs from writer shape %s (frames written by one side are mis-decoded by the other)" % (suffix, tag, a, bseq))
        # the reader's default arm must be an error (not a decode)
        if "_" in rs:
            R.require(rs["_"] == [] or rs["_"] == ["u8"], suffix + ".default", r.where(), "%s: unknown tags decode nothing further" % suffix,
                      fail_msg="%s: the default arm of the reader decodes data (%s)" % (suffix, rs["_"]))
    R.floor(found, 4, "hand-codecs", "hand-written reader/writer pairs located")


def len_rule(ctx, bodies=None, R=None):
    """element-count agreement: a reader loop must iterate exactly the decoded length (not a clamped / adjusted one),
    and the writer must write `.len()` of the collection it then iterates."""
    F = ctx.F
    R = R or ctx.rule("C09.len", "K4", "hand-written readers iterate exactly the decoded element count; writers emit len() of the collection they iterate")
    n = 0
    rd = bodies if bodies is not None else [b for b in F.bodies.values() if b.impl_trait == READABLE and b.id.endswith("::read_from") and not b.mac]
    stop = lambda call: bool(re.search(r"core::cmp::(min|max|Ord::min|Ord::max)$|::clamp$|::saturating_|::checked_|::wrapping_", call.f))
    for b in rd:
        reads = _io_calls(b, "r")
        for bb in sorted(b.live_blocks()):
            for i, s in enumerate(b.blocks[bb]["s"]):
                if not (s[0] == "A" and s[2][0] == "agg" and isinstance(s[2][1], dict) and s[2][1].get("adt") == "core::ops::range::Range" and "usize" in b.ty(s[1][0])):
                    continue
                # a `lo..hi` range of usize driving a loop that reads from the wire
                ops = s[2][2]
                hi = op_place(ops[1]) if len(ops) > 1 else None
                if hi is None:
                    continue
                loop_reads = [c for c in reads if b.can_reach(bb, c.bb) and any(b.can_reach(x, c.bb) for x in b.succ[c.bb])]
                if not loop_reads:
                    continue
                n += 1
                org = flow.origins(b, hi, at=(bb, i), stop=stop)
                direct = bool(org) and all(o.kind == "call" and READER_READ.search(o.call.f) and not stop(o.call) for o in org)
                lo_k = op_const(ops[0])
                R.require(direct and lo_k is not None and lo_k.get("v") == 0, "%s:loop#%d" % (b.impl_self or b.id, n), "%s:%d" % (b.file, s[3]),
                          "loop `0..%s` iterates exactly the count read from the wire" % b.lname(hi[0]),
                          fail_msg="%s: the element loop runs `%s..%s` where the bound comes from %s, not directly from the decoded length: the reader consumes a different number of elements than the writer emitted (frame desynchronises)"
                                   % (b.impl_self or b.id, (lo_k or {}).get("v", "?"), b.lname(hi[0]), cm.origin_summary(org)))
    if bodies is None:
        R.floor(n, 4, "reader-loops", "count-driven reader loops in hand-written codecs")
    # writer side: every written usize length is `.len()` of a collection of self
    wn = 0
    wr = [b for b in F.bodies.values() if b.impl_trait == WRITABLE and b.id.endswith("::write_to") and not b.mac] if bodies is None else []
    for b in wr:
        for c in _io_calls(b, "w"):
            if _io_type(c, "w") != ["usize"]:
                continue
            wn += 1
            org = cm.operand_origins(b, c, 0)
            ok = bool(org) and all(o.kind == "call" and o.call.name() == "len" for o in org)
            R.require(ok, "%s:write-len#%d" % (b.impl_self, wn), c.where(), "the written count is a collection's len()",
                      fail_msg="%s writes a count that is not `.len()` of the collection it serialises: %s" % (b.impl_self, cm.origin_summary(org)))
    if bodies is None:
        R.floor(wn, 4, "writer-lens", "length prefixes written by hand-written codecs")


def _norm(seq):
    out = []
    for t in seq:
        t = t.replace("klukai_types::", "")
        out.append(t)
    return out


# ------------------------------------------------------------------------------------------------ eof
def eof_rule(ctx):
    """fields read with default_on_eof must be the last field read in their variant (else old frames mis-decode).
    In the derive expansion a default_on_eof field is read through a match on the read result whose Err arm checks
    `is_eof`; we detect the `speedy::...::is_eof`/`default` pattern and require no read_from after it in the arm."""
    F = ctx.F
    R = ctx.rule("C09.eof", "K6", "default_on_eof fields are the last thing read in their variant")
    n = 0
    for b in F.bodies.values():
        if b.impl_trait != READABLE or not b.id.endswith("::read_from"):
            continue
        eof = [c for c in b.calls if c.name() in ("is_eof",) or "error::IsEof" in c.f]
        if not eof:
            continue
        reads = _io_calls(b, "r")
        for e in eof:
            n += 1
            later = [c for c in reads if b.can_reach(e.bb, c.bb) and not b.can_reach(c.bb, e.bb) and c.bb != e.bb]
            # reads after the eof-default site in the same arm
            R.require(not later, "%s#%d" % (b.impl_self, eof.index(e)), e.where(), "default_on_eof field of %s is read last" % b.impl_self,
                      fail_msg="%s: a field is read after a default_on_eof field (%s): frames from older peers mis-decode" % (b.impl_self, [c.fi for c in later][:2]))
    R.floor(n, 3, "eof-fields", "default_on_eof read sites")


# ------------------------------------------------------------------------------------------------ pack
def pack_rule(ctx):
    F = ctx.F
    R = ctx.rule("C09.pack", "K6", "pack_columns / unpack_columns agree on type tags, shift and mask constants")
    p = F.one(r"pubsub::pack_columns$")
    u = F.one(r"pubsub::unpack_columns$")
    if not (R.anchor(p, "pack_columns", "fn pack_columns") and R.anchor(u, "unpack_columns", "fn unpack_columns")):
        return
    def consts(b, ops):
        out = []
        for bl in b.blocks:
            for s in bl["s"]:
                if s[0] == "A" and s[2][0] == "bin" and s[2][1] in ops:
                    for o in s[2][2:4]:
                        k = op_const(o)
                        if k is not None and "v" in k:
                            out.append((s[2][1], k["v"]))
        return out
    shl = {v for op, v in consts(p, ("Shl",))}
    shr = {v for op, v in consts(u, ("Shr",))}
    mask = {v for op, v in consts(u, ("BitAnd",))}
    R.require(shl == shr and len(shl) == 1, "shift", p.where(), "pack shifts the length-width by %s, unpack shifts back by %s" % (sorted(shl), sorted(shr)),
              fail_msg="pack_columns shifts by %s but unpack_columns by %s" % (sorted(shl), sorted(shr)))
    if shl and len(shl) == 1:
        s = list(shl)[0]
        R.require(mask == {(1 << s) - 1}, "mask", u.where(), "unpack masks the type with 2^%d-1" % s,
                  fail_msg="unpack_columns masks the type byte with %s, expected %d" % (sorted(mask), (1 << s) - 1))
    # tag table: ColumnType discriminants used by the writer == from_u8 table
    fu = F.one(r"::ColumnType::from_u8$")
    if R.anchor(fu, "from_u8", "fn ColumnType::from_u8"):
        table = {}
        for bb in fu.live_blocks():
            t = fu.term(bb)
            if t["t"] == "sw":
                for v, tgt in t["targets"]:
                    # follow gotos to the block constructing the variant
                    cur, hops = tgt, 0
                    while hops < 6:
                        found = None
                        for s_ in fu.blocks[cur]["s"]:
                            if s_[0] == "A" and s_[2][0] == "agg" and isinstance(s_[2][1], dict) and s_[2][1].get("adt", "").endswith("ColumnType"):
                                found = s_[2][1]["variant"]
                        if found:
                            table[v] = found
                            break
                        tt = fu.term(cur)
                        if tt["t"] != "goto":
                            break
                        cur, hops = tt["tgt"], hops + 1
        adt = F.adts.get("klukai_types::api::ColumnType")
        if R.anchor(adt, "ColumnType.adt", "enum ColumnType"):
            discr = {v["name"]: v.get("discr") for v in adt["variants"]}
            R.require(len(table) == len(discr) and all(discr.get(name) == tag for tag, name in table.items()), "from_u8.table", fu.where(),
                      "from_u8 inverts `ColumnType as u8` for all %d variants: %s" % (len(discr), table),
                      fail_msg="ColumnType::from_u8 table %s disagrees with the enum discriminants %s written by pack_columns" % (table, discr))
            # the discriminants must fit under the 3-bit mask
            R.require(all(d is not None and 0 <= d <= 7 for d in discr.values()), "tags-fit-mask", fu.where(), "all type tags fit in 3 bits",
                      fail_msg="a ColumnType discriminant does not fit in the 3 type bits: %s" % discr)

    # width function (writer) vs extension of the variable-width read (reader)
    # (the writer's width functions are located on the plain fact base: the inlined view dissolves them into pack_columns)
    PF = getattr(F, "plain", F)
    pp = PF.one(r"pubsub::pack_columns$")
    puts = [c for c in pp.calls if re.search(r"BufMut::put_u?int(_le|_ne)?$", c.f)]
    wfns = set()
    for c in puts:
        if len(c.args) < 3 or op_place(c.args[2]) is None:
            continue
        for o in flow.origins(pp, op_place(c.args[2]), at=(c.bb, "T")):
            if o.kind == "call" and PF.get(o.call.r) is not None:
                wfns.add(o.call.r)
    # follow callees of the width functions inside the workspace
    work = list(wfns)
    while work:
        f_ = PF.get(work.pop())
        for c in (f_.calls if f_ is not None else []):
            if PF.get(c.r) is not None and c.r not in wfns:
                wfns.add(c.r)
                work.append(c.r)
    if R.anchor(sorted(wfns), "width-fns", "the function(s) computing the byte width written by pack_columns"):
        shape = _width_shape(PF, sorted(wfns))
        readers = [u] + [x for x in decode_closure_of(F, ctx.G, [u]) if x is not u]
        signed = [(x, c) for x in readers for c in x.calls if re.search(r"Buf::get_int(_le|_ne)?$", c.f)
                  and not (op_const(c.args[1]) is not None and (F.const_value(op_const(c.args[1])) or 0) >= 8)]
        if shape == "unsigned-magnitude":
            R.require(not signed, "width-extension", signed[0][1].where() if signed else u.where(),
                      "the writer sizes integers by unsigned magnitude (mask tests only) and the reader zero-extends widths < 8",
                      fail_msg="pack_columns sizes integers and lengths by their unsigned magnitude (%s test only `value & mask != 0`: 200 -> 1 byte `c8`, negatives -> 8 bytes) but %s reads "
                               "them with the sign-extending %s: 128..255, 32768..65535, ... come back negative and texts/blobs of those lengths fail to unpack"
                               % (", ".join(cm.short_id(w) for w in sorted(wfns)), signed[0][0].id if signed else "", signed[0][1].name() if signed else ""))
        else:
            R.ok("width-extension", u.where(), "width function shape `%s` not classified: sign agreement of writer and reader not decided" % shape, nontrivial=False)


def decode_closure_of(F, G, entries):
    return G.reachable_bodies(entries, kinds=("call", "closure_sync"))


def _width_shape(F, fns):
    """'unsigned-magnitude' when every branch of the width functions tests `value & const != 0` (or `value * const != 0`)"""
    n = 0
    for fid in fns:
        b = F.get(fid)
        if b is None:
            return "unknown"
        for bb in b.live_blocks():
            t = b.term(bb)
            if t["t"] != "sw":
                continue
            n += 1
            d = op_local(t["d"])
            ok = False
            for dd in b.defs.get(d, []):
                if dd[2] == "assign" and dd[3][1][0] == "bin" and dd[3][1][1] in ("Ne", "Eq"):
                    a, k = dd[3][1][2], dd[3][1][3]
                    kc = op_const(k)
                    if kc is None or kc.get("v") != 0 or op_local(a) is None:
                        continue
                    # the tested local is BitAnd / Mul of something with a constant
                    for d2 in b.defs.get(op_local(a), []):
                        if d2[2] == "assign":
                            rv = d2[3][1]
                            if rv[0] == "bin" and rv[1] in ("BitAnd",):
                                ok = True
                            if rv[0] == "use" and op_place(rv[1]) is not None:
                                for d3 in b.defs.get(op_place(rv[1])[0], []):
                                    if d3[2] == "assign" and d3[3][1][0] == "bin" and d3[3][1][1].startswith("Mul"):
                                        ok = True
            if not ok:
                return "other"
    return "unsigned-magnitude" if n else "unknown"


# ------------------------------------------------------------------------------------------------ vec element minimum
_SIZES = {"u8": 1, "i8": 1, "bool": 1, "u16": 2, "i16": 2, "u32": 4, "i32": 4, "f32": 4, "u64": 8, "i64": 8, "f64": 8, "usize": 8, "isize": 8, "u128": 16, "i128": 16}


def _min_bytes_lower_bound(F, b, depth=0):
    """sound lower bound of what a `minimum_bytes_needed` body returns: constants, size_of::<prim>(), sums, min/max and
    delegation to another minimum_bytes_needed are understood; anything else (branches, unknown calls) counts as 0"""
    if b is None or depth > 6:
        return 0
    if any(bl["term"]["t"] == "sw" for i, bl in enumerate(b.blocks) if i in b.live_blocks()):
        return 0
    val = {}

    def opv(op):
        k = op_const(op)
        if k is not None:
            v = F.const_value(k)
            return v if isinstance(v, int) else 0
        p_ = op_place(op)
        if p_ is None:
            return 0
        if len(p_) == 1:
            return val.get(p_[0], 0)
        if len(p_) == 2 and isinstance(p_[1], list) and p_[1][0] == "f" and p_[1][1] == 0:
            return val.get(p_[0], 0)      # (sum, overflowed).0
        return 0
    bb, seen = 0, set()
    while bb is not None and bb not in seen:
        seen.add(bb)
        bl = b.blocks[bb]
        for st in bl["s"]:
            if st[0] != "A" or len(st[1]) != 1:
                continue
            rv = st[2]
            if rv[0] == "use":
                val[st[1][0]] = opv(rv[1])
            elif rv[0] == "bin" and rv[1].startswith("Add"):
                val[st[1][0]] = opv(rv[2]) + opv(rv[3])
            elif rv[0] == "bin" and rv[1].startswith("Mul"):
                val[st[1][0]] = opv(rv[2]) * opv(rv[3])
            elif rv[0] == "null" and rv[1] == "SizeOf":
                val[st[1][0]] = _SIZES.get(rv[2], 0)
            else:
                val[st[1][0]] = 0
        t = bl["term"]
        if t["t"] == "call" and t.get("dest") and len(t["dest"]) == 1:
            f = t.get("f", "")
            d = t["dest"][0]
            if f == "core::mem::size_of":
                ta = (t.get("targs") or [""])[0]
                val[d] = _SIZES.get(ta, 0)
            elif f.endswith("::minimum_bytes_needed"):
                callee = F.get(t.get("r") or "")
                if callee is not None and callee is not b:
                    val[d] = _min_bytes_lower_bound(F, callee, depth + 1)
                else:
                    st_ = t.get("self", "")
                    # speedy's own impls: primitives and length-prefixed strs / vecs (u32 length by default)
                    val[d] = _SIZES.get(st_, 4 if re.match(r"^(&('\w+ )?str|alloc::string::String|alloc::vec::Vec<)", st_) else 0)
            elif f in ("core::cmp::min", "core::cmp::Ord::min"):
                val[d] = min(opv(t["args"][0]), opv(t["args"][1]))
            elif f in ("core::cmp::max", "core::cmp::Ord::max"):
                val[d] = max(opv(t["args"][0]), opv(t["args"][1]))
            else:
                val[d] = 0
        if t["t"] == "ret":
            return max(0, val.get(0, 0))
        bb = t.get("tgt") if t["t"] in ("goto", "call", "assert", "drop") else None
    return 0


def vecmin_rule(ctx):
    """speedy reserves `Vec::with_capacity(len)` for a length-prefixed `Vec<T>` after checking only that
    `len * T::minimum_bytes_needed()` bytes remain.  The trait default is 0, so for a hand-written `Readable` that does not
    override it the check is vacuous and a peer-chosen length (u32) is reserved outright: a 27-byte
    `SyncMessage::V1(Request([(actor, <len=0xffffffff> ..)]))` asks for 137 GB and the process aborts."""
    F = ctx.F
    R = ctx.rule("C09.vecmin", "K6", "every hand-written speedy Readable in the workspace overrides minimum_bytes_needed with a positive bound, so a Vec of it cannot be reserved beyond the remaining input")
    hand = [b for b in F.bodies.values() if b.impl_trait == READABLE and b.id.endswith("::read_from") and not b.mac]
    if not R.floor(len(hand), 8, "hand-written", "hand-written Readable impls"):
        return
    # where such types are read as Vec elements through speedy (for the report)
    uses = defaultdict(list)
    for c in F.all_calls():
        if c.f.startswith("speedy::") and "Vec<" in " ".join(c.t.get("targs") or []) + c.self_ty:
            txt = " ".join(c.t.get("targs") or []) + " " + c.self_ty
            for b in hand:
                ty = b.impl_self or ""
                if ty and re.search(r"Vec<[^>]*%s" % re.escape(ty), txt):
                    uses[ty].append(c.where())
    for b in sorted(hand, key=lambda x: x.id):
        ty = b.impl_self or b.id
        mb = F.get(b.id[:-len("read_from")] + "minimum_bytes_needed")
        lb = _min_bytes_lower_bound(F, mb) if mb is not None else 0
        R.require(lb > 0, "min>0:" + cm.short_id(ty), b.where(), "minimum_bytes_needed() >= %d" % lb,
                  fail_msg="%s has a hand-written Readable but %s: speedy's read_vec guard `len * 0 <= remaining` is vacuous, so `Vec<%s>` reserves a peer-chosen length "
                           "(u32) before reading anything%s - allocation unrelated to the input size, process abort on failure"
                           % (ty, "no minimum_bytes_needed (trait default 0)" if mb is None else "a minimum_bytes_needed with lower bound 0", ty.rsplit("::", 1)[-1],
                              (" (read as a Vec element at %s)" % uses[ty][0]) if uses.get(ty) else ""))


# ------------------------------------------------------------------------------------------------ controls
def controls(cctx):
    silent = []
    F = cctx.F
    D = [b for b in F.bodies.values() if "decode" in b.id]
    R = cctx.rule("C09.panic", "K8", "control")
    panic_rule(cctx, D, R)
    f = [o for o in R.obligations if not o["ok"]]
    if not any("bad_decode_panics" in o["instance"] for o in f):
        silent.append("panic in bad_decode_panics")
    if any("good_decode" in o["instance"] for o in f):
        silent.append("misfire on good_decode")
    R2 = cctx.rule("C09.alloc", "K8+K4", "control")
    return silent
