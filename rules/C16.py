"""C16 — nodes of different clusters never exchange data.

Strong structural claim: closed inventory of ingest senders into the change pipeline, each behind a cluster-id
equality; serve_sync rejects a different cluster before anything else; partner / target selection filters by
cluster equality; outgoing frames are stamped with the agent's cluster id; SetId persists before publishing.
"""
import re

from corrolint import flow
from corrolint.facts import op_place, op_const, op_local
from . import common as cm

CLUSTER = r"^klukai_types::actor::ClusterId$"
CHANGE_CHAN = "(klukai_types::broadcast::ChangeV1, klukai_types::broadcast::ChangeSource)"
AGENT_CLUSTER = "klukai_types::agent::Agent::cluster_id"


def run(ctx):
    F, G = ctx.F, ctx.G
    ctx.trust("quinn/speedy transport delivers what the peer sent", "foca membership carries the peer's declared cluster id in MemberState",
              "derive(PartialEq) on ClusterId(u16) is value equality")
    ctx.assume("already-open connections after a runtime `cluster set-id` keep the id captured at accept time (configuration dynamics, not decided)")
    ingest(ctx)
    uni(ctx)
    serve(ctx)
    client(ctx)
    targets(ctx)
    stamp(ctx)
    persist(ctx)
    member(ctx)


def _is_agent_cluster(orgs):
    return bool(orgs) and all(o.kind == "call" and (o.call.t.get("r") or o.call.f) == AGENT_CLUSTER for o in orgs)


# ------------------------------------------------------------------------------------------------ ingest inventory
def ingest(ctx):
    F = ctx.F
    R = ctx.rule("C16.ingest", "K1", "the only senders into the change pipeline are the uni-stream task and parallel_sync's reader")
    senders = [c for c in F.all_calls() if CHANGE_CHAN in c.self_ty and re.search(r"::(send|try_send|blocking_send|send_timeout)$", c.f)]
    allowed = {"klukai_agent::agent::uni::spawn_unipayload_handler", "klukai_agent::api::peer::parallel_sync"}
    if not R.floor(len(senders), 2, "senders", "senders on CorroSender<(ChangeV1, ChangeSource)>"):
        return
    for c in senders:
        root = F.root_fn(c.body).id
        R.require(root in allowed, "sender@%s" % root, c.where(), "change pipeline sender in %s" % root,
                  fail_msg="new ingest path: %s sends (ChangeV1, ChangeSource) into the change pipeline without being a registered, cluster-checked path" % c.body.id)
    # tokio Sender clones handed elsewhere: the raw channel type must not be sent on directly either
    raw = [c for c in F.all_calls() if "ChangeV1, klukai_types::broadcast::ChangeSource" in c.self_ty
           and c.f.startswith("tokio::sync::mpsc") and re.search(r"::(send|try_send|blocking_send)$", c.f)
           and not c.body.id.startswith("klukai_types::channel::")]
    R.require(not raw, "raw-senders", raw[0].where() if raw else "", "no raw tokio sender of the change channel outside channel.rs",
              fail_msg="raw tokio mpsc send of (ChangeV1, ChangeSource) in %s" % (raw[0].body.id if raw else ""))


# ------------------------------------------------------------------------------------------------ uni
def uni(ctx):
    F = ctx.F
    R = ctx.rule("C16.uni", "K2+K9", "broadcast ingest: a decoded change is queued only when the handler's cluster id equals the payload's")
    cands = [b for b in F.find(r"^klukai_agent::agent::uni::") if b.kind in ("coroutine", "closure") and any(CHANGE_CHAN in c.self_ty and c.name() == "send" for c in b.calls)]
    if not R.anchor(cands, "uni-task", "the uni-stream coroutine that sends into the change channel"):
        return
    b = cands[0]
    cmps = cm.eq_compares(b, CLUSTER)
    if not R.require(len(cmps) == 1, "compare", b.where(), "one cluster-id comparison in the uni task",
                     fail_msg="expected exactly one ClusterId comparison in the uni-stream task, found %d: the broadcast path is not (or ambiguously) cluster-checked" % len(cmps)):
        return
    c = cmps[0]
    # the only producer of what is sent: Vec::push of (change, ChangeSource::Broadcast)
    pushes = [p for p in b.calls if p.f.endswith("Vec::<T, A>::push") and "ChangeV1" in p.self_ty]
    if not R.anchor(pushes, "push", "changes.push((change, Broadcast))"):
        return
    ok, d = cm.effect_only_when_equal(b, c, cm.blocks_of_calls(pushes))
    R.require(ok, "push-iff-equal", pushes[0].where(), "a change is buffered only on the cluster-equal edge %s" % d,
              fail_msg="the uni task buffers a broadcast change although the payload's cluster id differs (reachability by compare outcome: %s)" % d)
    # per frame: the guard evaluator assumes one outcome of the comparison per run; frames are decoded in a loop, so
    # additionally every path from the decode of a frame to the push must evaluate the comparison (no flag-guarded skip)
    decs = [d for d in b.calls if "read_from_buffer" in d.f and "UniPayload" in d.self_ty]
    if R.anchor(decs, "decode", "UniPayload::read_from_buffer in the frame loop"):
        d = decs[0]
        tgt = b.term(d.bb).get("tgt")
        skip = [p for p in pushes if p.bb in b.reachable(tgt, no_nodes=(c.bb, d.bb))]
        R.require(not skip, "compare-per-frame", pushes[0].where(), "every path from decoding a frame to buffering its change evaluates the cluster comparison",
                  fail_msg="a decoded frame can reach changes.push without its cluster id being compared (the comparison is skipped on some path, e.g. checked once per stream): frames of another cluster riding on an accepted stream are applied")
    # operands: handler param (captured upvar) vs decoded payload field
    o0, o1 = cm.operand_origins(b, c, 0), cm.operand_origins(b, c, 1)
    s0, s1 = cm.origin_summary(o0), cm.origin_summary(o1)
    def is_param(orgs):
        return bool(orgs) and all(o.kind == "arg" and o.local == 1 and o.field_names()[:1] == ("cluster_id",) for o in orgs)
    def is_payload(orgs):
        return bool(orgs) and all(o.kind == "call" and "read_from_buffer" in o.call.f and "cluster_id" in o.field_names() for o in orgs)
    R.require((is_param(o0) and is_payload(o1)) or (is_param(o1) and is_payload(o0)), "operands", c.where(),
              "compares the handler's cluster id with the decoded payload's cluster_id field (%s vs %s)" % (s0, s1),
              fail_msg="the uni-task comparison does not compare handler cluster id with the payload's cluster_id field: %s vs %s" % (s0, s1))
    # what is sent comes out of that vector only
    sends = [s for s in b.calls if CHANGE_CHAN in s.self_ty and s.name() == "send"]
    for s in sends:
        org = cm.operand_origins(b, s, 1)
        vec_ok = bool(org) and all((o.kind == "call" and (o.call.f.endswith("Vec::<T>::new") or "vec" in o.call.f.lower() or "read_from_buffer" in o.call.f)) or o.kind == "const" for o in org)
        R.require(vec_ok, "send-source", s.where(), "what is sent is drained from the checked buffer (%s)" % cm.origin_summary(org),
                  fail_msg="the uni task sends a change that does not come from the cluster-checked buffer: %s" % cm.origin_summary(org))
    # the handler's parameter is the agent's cluster id at the (single) call site
    callers = [c2 for c2 in F.all_calls() if (c2.t.get("r") or c2.f) == "klukai_agent::agent::uni::spawn_unipayload_handler"]
    if R.floor(len(callers), 1, "handler-callers", "callers of spawn_unipayload_handler"):
        for c2 in callers:
            org = cm.operand_origins(c2.body, c2, 2)
            R.require(_is_agent_cluster(org), "handler-arg@%s" % F.root_fn(c2.body).id, c2.where(), "handler is given agent.cluster_id()",
                      fail_msg="spawn_unipayload_handler is called with a cluster id that is not agent.cluster_id(): %s" % cm.origin_summary(org))


# ------------------------------------------------------------------------------------------------ serve_sync
def serve(ctx):
    F = ctx.F
    R = ctx.rule("C16.serve", "K2", "serve_sync: on a different cluster id only the DifferentCluster rejection is written; state/data/handshake happen only on the equal edge")
    cos = [b for b in cm.coroutines_of(F, "klukai_agent::api::peer::serve_sync") if cm.eq_compares(b, CLUSTER)]
    if not R.anchor(cos, "serve_sync", "serve_sync coroutine containing the cluster comparison"):
        return
    b = cos[0]
    cmps = cm.eq_compares(b, CLUSTER)
    if not R.require(len(cmps) == 1, "compare", b.where(), "one cluster comparison in serve_sync", fail_msg="expected one ClusterId comparison in serve_sync, found %d" % len(cmps)):
        return
    c = cmps[0]
    o0, o1 = cm.operand_origins(b, c, 0), cm.operand_origins(b, c, 1)
    def is_param(orgs):
        return bool(orgs) and all(o.kind == "arg" and o.local == 1 and "cluster_id" in o.field_names() for o in orgs)
    R.require((is_param(o0) and _is_agent_cluster(o1)) or (is_param(o1) and _is_agent_cluster(o0)), "operands", c.where(),
              "compares the peer-declared cluster id (parameter) with agent.cluster_id()",
              fail_msg="serve_sync's comparison is not (peer cluster id parameter) vs agent.cluster_id(): %s vs %s" % (cm.origin_summary(o0), cm.origin_summary(o1)))
    # sensitive effects
    fam = F.family(b)
    sens = []
    for name in ("klukai_types::sync::generate_sync", "klukai_agent::api::peer::process_sync", "klukai_agent::api::peer::read_sync_msg"):
        cs = [x for x in b.calls if (x.t.get("r") or x.f) == name]
        R.anchor(cs, "sensitive:" + name.rsplit("::", 1)[-1], "call of %s in serve_sync" % name)
        sens += cs
    if sens:
        ok, d = cm.effect_only_when_equal(b, c, cm.blocks_of_calls(sens))
        R.require(ok, "state-iff-equal", sens[0].where(), "generate_sync / process_sync / reading the peer's messages happen only on the cluster-equal edge %s" % d,
                  fail_msg="serve_sync reaches sync-state generation or serving although the cluster ids differ: %s" % d)
    # State/Clock/Changeset messages constructed only on equal edge
    for variant in ("State", "Clock", "Changeset"):
        bl = cm.agg_blocks(b, "klukai_types::sync::SyncMessageV1", variant)
        if bl:
            ok, d = cm.effect_only_when_equal(b, c, bl)
            R.require(ok, "msg-%s-iff-equal" % variant, b.where(bl[0]), "SyncMessageV1::%s is built only on the equal edge" % variant,
                      fail_msg="SyncMessageV1::%s is built on the different-cluster edge" % variant)
    # rejection on the different edge, and it dominates nothing else
    rej = [a for a in cm.aggregates(b, "klukai_types::sync::SyncRejectionV1", "DifferentCluster")]
    if R.anchor(rej, "rejection", "SyncRejectionV1::DifferentCluster"):
        tt = flow.effect_truth_table(b, [c.bb], [rej[0][0]])
        is_eq = c.name() == "eq"
        diff = tt[(False,)] if is_eq else tt[(True,)]
        same = tt[(True,)] if is_eq else tt[(False,)]
        R.require(diff and not same, "rejection-iff-different", "%s:%d" % (b.file, rej[0][5]), "DifferentCluster is sent exactly on the different edge",
                  fail_msg="DifferentCluster rejection reachability is wrong (different=%s equal=%s)" % (diff, same))
    # the compared parameter is the decoded BiPayload cluster_id, unchanged
    bi = [x for x in F.all_calls() if (x.t.get("r") or x.f) == "klukai_agent::api::peer::serve_sync"]
    if R.floor(len(bi), 1, "serve_sync-callers", "callers of serve_sync"):
        for x in bi:
            org = cm.operand_origins(x.body, x, 4)
            ok = bool(org) and all(o.kind == "call" and "read_from_buffer" in o.call.f and "cluster_id" in o.field_names() for o in org)
            R.require(ok, "caller-arg@%s" % F.root_fn(x.body).id, x.where(), "serve_sync receives the cluster_id decoded from the BiPayload",
                      fail_msg="serve_sync is called with a cluster id that is not the decoded BiPayload.cluster_id: %s" % cm.origin_summary(org))


# ------------------------------------------------------------------------------------------------ client
def client(ctx):
    F = ctx.F
    R = ctx.rule("C16.client", "K2+K4", "sync partners are chosen only among members whose cluster id equals the agent's; a Rejection aborts the session")
    callers = [c for c in F.all_calls() if (c.t.get("r") or c.f) == "klukai_agent::api::peer::parallel_sync"]
    if not R.floor(len(callers), 1, "callers", "callers of parallel_sync"):
        return
    for c in callers:
        root = F.root_fn(c.body).id
        R.require(root == "klukai_agent::agent::handlers::handle_sync", "caller@%s" % root, c.where(), "parallel_sync is called from handle_sync",
                  fail_msg="parallel_sync is called from %s: its members are not filtered by cluster id there" % root)
    hs = [b for b in cm.coroutines_of(F, "klukai_agent::agent::handlers::handle_sync")]
    fam = [x for b in hs for x in F.family(b)]
    filt = [b for b in fam if b.kind == "closure" and cm.eq_compares(b, CLUSTER)]
    if not filt:
        # the candidate selection written as an explicit loop: `if member.cluster_id != agent.cluster_id() { continue }` before the push
        loops = [b for b in fam if b.kind == "coroutine" and cm.eq_compares(b, CLUSTER)]
        if not R.anchor(loops, "filter", "cluster-id comparison in handle_sync's candidate selection"):
            return
        lb = loops[0]
        c = cm.eq_compares(lb, CLUSTER)[0]
        pushes = [p for p in lb.calls if p.f.endswith("Vec::<T, A>::push") and lb.can_reach(c.bb, p.bb)]
        if R.anchor(pushes, "candidate-push", "the push collecting a sync candidate"):
            ok, d = cm.effect_only_when_equal(lb, c, cm.blocks_of_calls(pushes))
            R.require(ok, "filter-rejects-different", c.where(), "a member is collected as sync candidate only on the cluster-equal edge %s" % d,
                      fail_msg="a member of a different cluster can be collected as sync candidate (%s)" % d)
            nx = [n for n in lb.calls if n.name() == "next" and lb.dominates(n.bb, c.bb)]
            if R.anchor(nx, "members-loop", "iteration over members.states"):
                tgt = lb.term(nx[-1].bb).get("tgt")
                skip = [p for p in pushes if p.bb in lb.reachable(tgt, no_nodes=(c.bb, nx[-1].bb))]
                R.require(not skip, "compare-per-member", c.where(), "every path from taking the next member to collecting it evaluates the cluster comparison",
                          fail_msg="some path collects a member without evaluating the cluster comparison")
        o0, o1 = cm.operand_origins(lb, c, 0), cm.operand_origins(lb, c, 1)
        s_ = cm.origin_summary(o0) + cm.origin_summary(o1)
        R.require(any("cluster_id" in x for x in s_) and (_is_agent_cluster(o0) or _is_agent_cluster(o1)), "filter-operands", c.where(), "compares member.cluster_id with agent.cluster_id() (%s)" % s_[:4],
                  fail_msg="candidate selection does not compare member.cluster_id with agent.cluster_id(): %s" % s_)
        return _client_rejection(ctx, R)
    fb = filt[0]
    c = cm.eq_compares(fb, CLUSTER)[0]
    eq_r, diff_r = cm.returns_when(fb, c)
    R.require(diff_r == {False}, "filter-rejects-different", c.where(), "the candidate filter returns false for a member of another cluster (returns %s when different, %s when equal)" % (diff_r, eq_r),
              fail_msg="the sync-candidate filter can return %s for a member whose cluster id differs" % diff_r)
    R.require(True in eq_r or None in eq_r, "filter-accepts-equal", c.where(), "same-cluster members can pass the filter")
    o0, o1 = cm.operand_origins(fb, c, 0), cm.operand_origins(fb, c, 1)
    def is_member(orgs):
        return bool(orgs) and all(o.kind == "arg" and "cluster_id" in o.field_names() for o in orgs)
    R.require((is_member(o0) and _is_agent_cluster(o1)) or (is_member(o1) and _is_agent_cluster(o0)), "filter-operands", c.where(),
              "filter compares member.cluster_id with agent.cluster_id()",
              fail_msg="candidate filter does not compare member.cluster_id with agent.cluster_id(): %s vs %s" % (cm.origin_summary(o0), cm.origin_summary(o1)))
    # the filter closure is what Iterator::filter receives, and the members passed to parallel_sync derive from that chain
    used = False
    for b in fam:
        passed, created = ctx.G.closure_operands(b)
        for call, cid, i in passed:
            if cid == fb.id and call.f.endswith("Iterator::filter"):
                used = True
    R.require(used, "filter-used", fb.where(), "the closure is the predicate of Iterator::filter on members.states",
              fail_msg="the cluster-comparing closure is no longer passed to Iterator::filter")
    _client_rejection(ctx, R)


def _client_rejection(ctx, R):
    F = ctx.F
    # Rejection => error return in parallel_sync handshake
    ps = [b for b in F.find(r"^klukai_agent::api::peer::parallel_sync::") if b.kind == "coroutine"]
    hits = 0
    for b in ps:
        for a in cm.aggregates(b, "klukai_agent::api::peer::SyncError", "Rejection") + [x for x in []]:
            hits += 1
        for c2 in b.calls:
            if c2.f == "core::convert::Into::into" and "SyncRejectionV1" in c2.self_ty:
                hits += 1
                # from this block every path returns without sending a request
                reqs = [r for r in b.calls if "SyncRequestV1" in r.fi or "encode_write_sync_msg" in (r.t.get("r") or r.f)]
                reach = b.reachable(c2.bb)
                bad = [r for r in reqs if r.bb in reach and r.bb != c2.bb]
                R.require(not bad, "rejection-aborts@%s" % b.id.rsplit("::", 2)[-2], c2.where(), "after a Rejection nothing further is written to that peer",
                          fail_msg="after receiving a Rejection the client still reaches %s" % (bad[0].fi if bad else ""))
    R.floor(hits, 1, "rejection-arms", "Rejection handling arms in parallel_sync")


# ------------------------------------------------------------------------------------------------ targets
def targets(ctx):
    F = ctx.F
    R = ctx.rule("C16.targets", "K9", "broadcast targets: members of another cluster are filtered out; ring0 requires the same cluster")
    hb = [b for b in F.find(r"^klukai_agent::broadcast::handle_broadcasts::") if b.kind == "closure" and cm.eq_compares(b, CLUSTER)]
    if R.anchor(hb, "bcast-filter", "filter_map closure comparing cluster ids in handle_broadcasts"):
        fb = hb[0]
        c = cm.eq_compares(fb, CLUSTER)[0]
        somes = cm.agg_blocks(fb, "core::option::Option", "Some")
        if not somes and fb.ty(0) == "bool":
            # `.filter(|m| ..)` form: the closure answers `true` to keep the member
            is_eq = c.name() == "eq"
            _, rets_diff = flow.eval_guard(fb, {c.bb: (not is_eq)})
            _, rets_same = flow.eval_guard(fb, {c.bb: is_eq})
            R.require(rets_diff == {False} and rets_same != {False}, "bcast-some-iff-equal", c.where(), "the target filter keeps a member only if it is of the same cluster (different -> %s, same -> %s)" % (sorted(map(str, rets_diff)), sorted(map(str, rets_same))),
                      fail_msg="the broadcast target filter keeps a member of a different cluster (returns %s when the cluster ids differ)" % sorted(map(str, rets_diff)))
        elif R.anchor(somes, "bcast-some", "Some(addr) in the target filter"):
            ok, d = cm.effect_only_when_equal(fb, c, somes)
            R.require(ok, "bcast-some-iff-equal", c.where(), "Some(addr) is produced only for same-cluster members %s" % d,
                      fail_msg="the broadcast target filter yields an address for a member of a different cluster: %s" % d)
        o0, o1 = cm.operand_origins(fb, c, 0), cm.operand_origins(fb, c, 1)
        def is_member(orgs):
            return bool(orgs) and all(o.kind == "arg" and "cluster_id" in o.field_names() for o in orgs)
        R.require((is_member(o0) and _is_agent_cluster(o1)) or (is_member(o1) and _is_agent_cluster(o0)), "bcast-operands", c.where(),
                  "compares member.cluster_id with agent.cluster_id()",
                  fail_msg="broadcast filter operands: %s vs %s" % (cm.origin_summary(o0), cm.origin_summary(o1)))
    r0 = [b for b in F.find(r"^klukai_types::members::Members::ring0::") if b.kind == "closure" and cm.eq_compares(b, CLUSTER)]
    if R.anchor(r0, "ring0", "ring0 closure comparing cluster ids"):
        fb = r0[0]
        c = cm.eq_compares(fb, CLUSTER)[0]
        # then_some(cond, addr): cond must be false when different
        ts = [x for x in fb.calls if re.search(r"bool>?::then(_some)?$", x.f)]
        if not ts and fb.ty(0) == "bool":
            # `.filter(|v| ..cluster_id == v.cluster_id..).map(|v| v.addr)` form
            is_eq = c.name() == "eq"
            _, rets_diff = flow.eval_guard(fb, {c.bb: (not is_eq)})
            R.require(rets_diff == {False}, "ring0-false-when-different", c.where(), "ring0's filter is false for a member of another cluster",
                      fail_msg="ring0 can select a member of a different cluster (filter returns %s when ids differ)" % sorted(map(str, rets_diff)))
        elif R.anchor(ts, "ring0.then_some", "bool::then_some in ring0"):
            # the bool receiver: evaluate under both outcomes
            t = ts[0]
            l = op_local(t.args[0])
            vals = {}
            for v in (False, True):
                # value of the receiver local at the then_some call
                reach, _ = flow.eval_guard(fb, {c.bb: v})
                vals[v] = _bool_at(fb, {c.bb: v}, t.bb, l)
            is_eq = c.name() == "eq"
            diff = vals[False] if is_eq else vals[True]
            R.require(diff is False, "ring0-false-when-different", c.where(), "ring0's condition is false for a member of another cluster",
                      fail_msg="ring0 can select a member of a different cluster (condition=%s when ids differ)" % diff)
        o0, o1 = cm.operand_origins(fb, c, 0), cm.operand_origins(fb, c, 1)
        s = cm.origin_summary(o0) + cm.origin_summary(o1)
        R.require(any("cluster_id" in x for x in s), "ring0-operands", c.where(), "ring0 compares v.cluster_id with the requested cluster id (%s)" % s,
                  fail_msg="ring0 comparison operands unexpected: %s" % s)
    # every ring0 caller passes agent.cluster_id()
    callers = [c for c in F.all_calls() if (c.t.get("r") or c.f) == "klukai_types::members::Members::ring0"]
    if R.floor(len(callers), 1, "ring0-callers", "callers of Members::ring0"):
        for c in callers:
            org = cm.operand_origins(c.body, c, 1)
            R.require(_is_agent_cluster(org), "ring0-arg@%s#%d" % (F.root_fn(c.body).id, callers.index(c)), c.where(), "ring0 is asked for agent.cluster_id()",
                      fail_msg="ring0 called with %s instead of agent.cluster_id()" % cm.origin_summary(org))


def _bool_at(body, atom_vals, at_bb, local):
    """value of a tracked bool local when block at_bb is entered (None = unknown / both)"""
    seeds = {body.term(bb)["dest"][0] for bb in atom_vals}
    tracked = flow._bool_taint(body, seeds)
    seen = set()
    stack = [(0, ())]
    vals = set()
    while stack:
        bb, envt = stack.pop()
        if (bb, envt) in seen:
            continue
        seen.add((bb, envt))
        env = dict(envt)
        for s in body.blocks[bb]["s"]:
            if s[0] == "A" and len(s[1]) == 1 and s[1][0] in tracked:
                v = flow._eval_rv(s[2], env)
                if v is None:
                    env.pop(s[1][0], None)
                else:
                    env[s[1][0]] = v
        if bb == at_bb:
            vals.add(env.get(local))
        t = body.term(bb)
        if t["t"] == "call":
            d = t["dest"]
            if bb in atom_vals:
                env[d[0]] = atom_vals[bb]
            elif len(d) == 1:
                env.pop(d[0], None)
            nxt = [t["tgt"]] if t.get("tgt") is not None else []
        elif t["t"] == "sw":
            l = op_local(t["d"])
            if l in env:
                m = {a: b for a, b in t["targets"]}
                v = 1 if env[l] else 0
                nxt = [m[v]] if v in m else [t["else"]]
            else:
                nxt = body.succ[bb]
        else:
            nxt = body.succ[bb]
        et = tuple(sorted(env.items()))
        for s in nxt:
            stack.append((s, et))
    if len(vals) == 1:
        return vals.pop()
    return None


# ------------------------------------------------------------------------------------------------ stamp
def stamp(ctx):
    F = ctx.F
    R = ctx.rule("C16.stamp", "K4", "every constructed UniPayload::V1 / BiPayload::V1 carries agent.cluster_id()")
    n = 0
    for adt in ("klukai_types::broadcast::UniPayload", "klukai_types::broadcast::BiPayload"):
        for (b, bb, i, place, k, ops, line) in cm.all_aggregates(F, adt, "V1"):
            if b.impl_trait in ("core::clone::Clone", "speedy::readable::Readable"):
                continue
            n += 1
            idx = k["fields"].index("cluster_id")
            p = op_place(ops[idx])
            org = flow.origins(b, p, at=(bb, i)) if p is not None else set()
            R.require(_is_agent_cluster(org), "%s@%s" % (adt.rsplit("::", 1)[-1], F.root_fn(b).id), "%s:%d" % (b.file, line),
                      "%s::V1.cluster_id = agent.cluster_id()" % adt.rsplit("::", 1)[-1],
                      fail_msg="%s::V1 is stamped with %s instead of agent.cluster_id(): peers will accept/reject it under the wrong cluster" % (adt.rsplit("::", 1)[-1], cm.origin_summary(org) or "a constant"))
    R.floor(n, 2, "constructions", "non-derive constructions of Uni/BiPayload::V1")


# ------------------------------------------------------------------------------------------------ persist
def persist(ctx):
    F = ctx.F
    R = ctx.rule("C16.persist", "K2", "admin SetId: the in-memory cluster id is replaced only after the __corro_state row was committed")
    setters = [c for c in F.all_calls() if (c.t.get("r") or c.f) == "klukai_types::agent::Agent::set_cluster_id"]
    if not R.floor(len(setters), 1, "set_cluster_id", "callers of Agent::set_cluster_id"):
        return
    for c in setters:
        b = c.body
        commits = [x for x in b.calls if x.name() == "commit" and "ransaction" in x.self_ty]
        if not R.anchor(commits, "commit@%s" % F.root_fn(b).id, "a transaction commit in the body that calls set_cluster_id"):
            continue
        oks = []
        for cm_ in commits:
            oks += flow.ok_edge_of(b, cm_)
        R.require(bool(oks) and b.edges_dominate(oks, c.bb), "set-after-commit@%s" % F.root_fn(b).id, c.where(),
                  "agent.set_cluster_id is dominated by the Ok edge of tx.commit()",
                  fail_msg="agent.set_cluster_id can run before / without a successful commit of the __corro_state row")
        execs = [x for x in b.calls if x.name() in ("execute", "execute_batch") and any("__corro_state" in s_ for s_ in cm.call_strings(b, x, F))]
        if R.anchor(execs, "state-write@%s" % F.root_fn(b).id, "INSERT OR REPLACE INTO __corro_state ... 'cluster_id'"):
            R.require(all(b.dominates(e.bb, cm_.bb) for e in execs for cm_ in commits), "write-before-commit@%s" % F.root_fn(b).id, execs[0].where(),
                      "the state row is written on the transaction before its commit",
                      fail_msg="the __corro_state write does not precede the commit")
            # same transaction: receiver of execute and of commit root in the same `transaction()` call
            def txroot(call):
                org = flow.origins(b, op_place(call.args[0]), at=(call.bb, "T"))
                return {o.call.bb for o in org if o.kind == "call"}
            R.require(all(txroot(e) == txroot(commits[0]) and txroot(e) for e in execs), "same-tx@%s" % F.root_fn(b).id, execs[0].where(),
                      "write and commit use the same transaction value",
                      fail_msg="the __corro_state write is not on the committed transaction")


def member(ctx):
    """Every cluster filter on the sending side (sync partner choice, broadcast targets, ring0) reads `MemberState.cluster_id`.
    The filters are only as good as that field: it must be replaced whenever a newer identity of a member is accepted (this is
    what a peer's `cluster set-id` produces), otherwise the node keeps treating the moved member as its own cluster."""
    from . import C18
    C18.add(ctx, rule_id="C16.member", desc="the cluster id stored for a member (read by all sender-side cluster filters) is replaced, from the announcing identity, on every accepted identity update")
