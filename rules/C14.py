"""C14 — row-level update notifications reflect every changed key and its final fate (narrow structural clauses)."""
import re

from corrolint import flow
from corrolint.facts import op_place, op_const, op_local
from . import common as cm
from . import tx

UPD = "klukai_types::updates::"
MC = UPD + "match_changes"
MCDB = UPD + "match_changes_from_db_version"


def run(ctx):
    ctx.trust("mpsc channel delivery", "cr-sqlite causal length: even = deleted, odd = alive")
    ctx.assume("delivery order under out-of-order merge, the bounded stale-suppression cache (2000 -> 1000) and channel overflow are not decided")
    feed(ctx)
    filter_(ctx)
    stale(ctx)
    parity(ctx)
    clcol(ctx)
    evict(ctx)
    lagged(ctx)


def _mgr(c):
    fi = c.fi
    if "SubsManager" in fi or "MatcherHandle" in fi:
        return "subs"
    if "UpdatesManager" in fi or "UpdateHandle" in fi:
        return "updates"
    return "?"


def feed(ctx):
    F, G = ctx.F, ctx.G
    R = ctx.rule("C14.feed", "K6+K2", "every place that feeds committed changes to the subscription manager feeds the updates manager with the same changes, after the commit")
    sites = [c for c in F.all_calls() if (c.t.get("r") or c.f) in (MC, MCDB)]
    bybody = {}
    for c in sites:
        bybody.setdefault(c.body.id, []).append(c)
    # group per root function
    byroot = {}
    for c in sites:
        byroot.setdefault(F.root_fn(c.body).id, []).append(c)
    if not R.floor(len(byroot), 3, "feeding-functions", "functions feeding the managers"):
        return
    for root, cs in sorted(byroot.items()):
        subs = [c for c in cs if _mgr(c) == "subs"]
        upds = [c for c in cs if _mgr(c) == "updates"]
        R.require(len(subs) == len(upds) and subs, "paired@%s" % root, cs[0].where(), "%d subscription feed(s) and %d update feed(s) in %s" % (len(subs), len(upds), root.rsplit("::", 1)[-1]),
                  fail_msg="%s feeds the subscription manager %d time(s) but the updates manager %d time(s): update listeners miss (or alone see) these changes" % (root, len(subs), len(upds)))
        for s_, u_ in zip(subs, upds):
            # same payload arguments (changes / conn, db_version [, actor])
            ok = True
            for ai in range(1, min(len(s_.args), len(u_.args))):
                a = cm.deep_arg_fields(s_.body, op_place(s_.args[ai]), (s_.bb, "T")) | {o for o in cm.origin_summary(cm.operand_origins(s_.body, s_, ai))} if op_place(s_.args[ai]) is not None else set()
                b_ = cm.deep_arg_fields(u_.body, op_place(u_.args[ai]), (u_.bb, "T")) | {o for o in cm.origin_summary(cm.operand_origins(u_.body, u_, ai))} if op_place(u_.args[ai]) is not None else set()
                if a != b_:
                    ok = False
            R.require(ok, "same-args@%s#%d" % (root, subs.index(s_)), u_.where(), "both managers receive the same (changes, db_version) values",
                      fail_msg="the updates manager is fed different arguments than the subscription manager in %s" % root)
    # after commit: in process_multiple_changes / process_fully_buffered_changes the feeds follow the `?` of the committing closure
    for root in ("klukai_agent::agent::util::process_multiple_changes", "klukai_agent::agent::util::process_fully_buffered_changes"):
        cs = byroot.get(root, [])
        if not R.anchor(cs, "remote@%s" % root.rsplit("::", 1)[-1], "feeds in " + root):
            continue
        for c in cs[:1]:
            b = c.body
            # walk up to the coroutine that ran the committing closure
            cur, site = b, c
            ok, why = False, "no committing closure found"
            hops = 0
            while cur is not None and hops < 4:
                passed, created = G.closure_operands(cur)
                for call, cid, i in passed:
                    cb = F.get(cid)
                    if cb is None or not tx.commits(cb):
                        continue
                    good, w = tx.closure_ok_returns_after_commit(F, cb, allow_false_before=True)
                    oks = flow.ok_edge_of(cur, call)
                    if good and oks and cur.edges_dominate(oks, site.bb):
                        if "early Ok(false)" in w:
                            # the feed must additionally sit on the `true` edge of the returned flag
                            tainted, _ = flow.taint(cur, [call.dest[0]])
                            guarded = False
                            for gb in cur.live_blocks():
                                t_ = cur.term(gb)
                                if t_["t"] == "sw" and t_.get("dty") == "bool" and op_local(t_["d"]) in tainted:
                                    e = flow.bool_edges(cur, gb)
                                    if e and cur.edge_dominates((gb, e[0]), site.bb):
                                        guarded = True
                            if not guarded:
                                why = "the closure may return Ok(false) before committing and the feed is not guarded by the returned flag"
                                continue
                        ok, why = True, "dominated by the Ok edge of the committing closure (%s)" % w
                if ok or not cur.parent:
                    break
                par = F.get(cur.parent)
                nsite = None
                for bb, bl in enumerate(par.blocks):
                    for s in bl["s"]:
                        if s[0] == "A" and s[2][0] == "agg" and isinstance(s[2][1], dict) and (s[2][1].get("closure") == cur.id or s[2][1].get("coroutine") == cur.id):
                            class _S:
                                pass
                            nsite = _S()
                            nsite.bb = bb
                cur, site, hops = par, nsite, hops + 1
                if site is None:
                    break
            R.require(ok, "after-commit@%s" % root.rsplit("::", 1)[-1], c.where(), "the managers are fed only after the transaction committed: %s" % why,
                      fail_msg="in %s the managers can be fed although the transaction did not commit (%s): listeners would be told about changes that were rolled back" % (root, why))
    R.require("klukai_types::broadcast::broadcast_changes" in byroot, "local-path", "", "the local-write path (broadcast_changes, spawned after commit: C07.tx2) feeds both managers",
              fail_msg="broadcast_changes no longer feeds the managers: local writes produce no notifications")


def filter_(ctx):
    F = ctx.F
    R = ctx.rule("C14.filter", "K9", "an update handle accepts every changed key of its table: a change is rejected only for another table or a key already among the candidates")
    b = next((x for x in F.find(r"::filter_matchable_change$") if (x.impl_self or "").endswith("updates::UpdateHandle")), None)
    if not R.anchor(b, "filter_matchable_change", "fn UpdateHandle::filter_matchable_change"):
        return
    cmps = [c for c in b.calls if c.f in ("core::cmp::PartialEq::ne", "core::cmp::PartialEq::eq") and re.search(r"String|str", c.self_ty)]
    if R.require(len(cmps) == 1, "table-compare", b.where(), "one table-name comparison", fail_msg="expected one table-name comparison, found %d" % len(cmps)):
        c = cmps[0]
        rt = flow.return_truth_table(b, [c.bb])
        is_eq = c.name() == "eq"
        diff = rt[(False,)] if is_eq else rt[(True,)]
        R.require(diff == {False}, "other-table-rejected", c.where(), "a change of another table is rejected", fail_msg="a change of another table returns %s" % diff)
        names = cm.deep_names(b, op_place(c.args[0]), (c.bb, "T"))[0] | cm.deep_names(b, op_place(c.args[1]), (c.bb, "T"))[0]
        R.require("table" in names and "name" in names, "compares-table-with-handle", c.where(), "compares change.table with the handle's table name (%s)" % sorted(names))
    # nothing column-dependent: the fields of the change that are read
    read = set()
    for bb in b.live_blocks():
        for s in b.blocks[bb]["s"]:
            if s[0] == "A":
                from corrolint.facts import rvalue_places
                for p in rvalue_places(s[2]):
                    if p[0] == 3:
                        read |= {x[2] for x in p[1:] if isinstance(x, list) and x[0] == "f"}
        t = b.term(bb)
        for a in t.get("args", []):
            p = op_place(a)
            if p is not None and p[0] == 3:
                read |= {x[2] for x in p[1:] if isinstance(x, list) and x[0] == "f"}
    R.require(read <= {"table", "pk", "cl"} and {"table", "pk"} <= read, "column-independent", b.where(), "only table, pk and cl of the change are consulted (%s)" % sorted(read),
              fail_msg="the update filter consults %s of the change: keys changed only in other columns could be missed" % sorted(read - {"table", "pk", "cl"}))


def stale(ctx):
    F = ctx.F
    R = ctx.rule("C14.stale", "K9", "batch_candidates drops a candidate only when the cached causal length is strictly greater than the incoming one")
    cos = cm.coroutines_of(F, UPD + "batch_candidates")
    fam = [x for c in cos for x in F.family(c)]
    hit = None
    for x in fam:
        gets = [c for c in x.calls if c.f.endswith("OccupiedEntry::<'_, K, V>::get") or (c.name() == "get" and "OccupiedEntry" in c.self_ty)]
        if gets:
            hit = (x, gets)
    if not R.anchor(hit, "cache-lookup", "OccupiedEntry::get on the cl cache"):
        return
    x, gets = hit
    g = gets[0]
    # the i64 comparison using the cached value
    cmp_stmt = None
    alias = {g.dest[0]}
    changed = True
    while changed:
        changed = False
        for bl in x.blocks:
            for s in bl["s"]:
                if s[0] == "A" and len(s[1]) == 1 and s[1][0] not in alias and s[2][0] in ("use", "cfd"):
                    p = op_place(s[2][1]) if s[2][0] == "use" else s[2][1]
                    if p is not None and p[0] in alias:
                        alias.add(s[1][0])
                        changed = True
    for bb in x.live_blocks():
        for i, s in enumerate(x.blocks[bb]["s"]):
            if s[0] == "A" and s[2][0] == "bin" and s[2][1] in ("Gt", "Ge", "Lt", "Le"):
                la, lb = op_local(s[2][2]), op_local(s[2][3])
                if la in alias or lb in alias:
                    cmp_stmt = (bb, i, s[2][1], la in alias)
    if not R.anchor(cmp_stmt, "cl-compare", "integer comparison between cached and incoming cl"):
        return
    bb, i, op, cached_first = cmp_stmt
    name = {"Gt": "gt", "Ge": "ge", "Lt": "lt", "Le": "le"}[op]
    ins = [c for c in x.calls if re.search(r"(HashMap|BTreeMap|IndexMap)::<K, V.*>::insert$", c.f) and x.can_reach(bb, c.bb)]
    buf_ins = [c for c in ins if "Vec<u8>" in c.self_ty and "TableName" not in c.self_ty] or ins
    if not R.anchor(buf_ins, "buffer-insert", "buffed.insert(pk, cl)"):
        return
    res = {}
    for o in ("<", "=", ">"):
        # role A = cached, B = incoming
        v = flow.compare_value(name, o, cached_first)
        cut = {c.bb for c in x.calls if c.name() == "entry" and "TableName" in c.self_ty and x.dominates(c.bb, bb)}
        reach, _ = flow.eval_guard(x, {}, start=bb, stmt_vals={(bb, i): v}, no_nodes=cut)
        res[o] = any(c.bb in reach for c in buf_ins[-1:])
    R.require(res == {"<": True, "=": True, ">": False}, "skip-iff-cached-newer", x.where(bb), "forwarded for cached < incoming and cached == incoming, dropped for cached > incoming (%s)" % res,
              fail_msg="candidate forwarding by (cached cl ? incoming cl) is %s; must be {<: True, =: True, >: False}: an equal-cl re-notification would be dropped or an older state forwarded" % res)


def parity(ctx):
    F = ctx.F
    R = ctx.rule("C14.parity", "K9", "a notification says Delete exactly when the causal length is even")
    b = F.get(UPD + "handle_candidates")
    if not R.anchor(b, "handle_candidates", "fn updates::handle_candidates"):
        return
    rems = []
    for bb in b.live_blocks():
        for i, s in enumerate(b.blocks[bb]["s"]):
            if s[0] == "A" and s[2][0] == "bin" and s[2][1] == "Rem":
                k = op_const(s[2][3])
                rems.append((bb, i, s[1][0], k.get("v") if k else None))
    if not R.require(len(rems) == 1 and rems[0][3] == 2, "mod-2", b.where(), "cl mod 2", fail_msg="expected `cl mod 2` in handle_candidates, found %s" % [(r[3]) for r in rems]):
        return
    sws = flow.int_compare_switches(b, rems[0][2])
    dele = cm.agg_blocks(b, "klukai_types::updates::ChangeType", "Delete") or cm.agg_blocks(b, "klukai_types::api::ChangeType", "Delete") or cm.agg_blocks(b, "ChangeType", "Delete")
    if not (R.anchor(sws, "parity-switch", "switch on cl mod 2") and R.anchor(dele, "Delete", "ChangeType::Delete construction")):
        return
    bb, op, k, tt, ft, lhs = sws[0]
    even_t = tt if flow.int_relation_holds(op, k, lhs, 0) else ft
    odd_t = tt if flow.int_relation_holds(op, k, lhs, 1) else ft
    send = [c for c in b.calls if c.name() == "blocking_send"]
    stop = tuple({c.bb for c in send})
    R.require(any(d in b.reachable(even_t, no_nodes=stop) for d in dele) and not any(d in b.reachable(odd_t, no_nodes=stop) for d in dele), "delete-iff-even", b.where(bb),
              "ChangeType::Delete is chosen iff cl mod 2 == 0", fail_msg="the Delete/Update choice no longer follows cl parity (even => deleted)")


def clcol(ctx):
    """the value whose parity decides deleted/updated must BE the causal length: on the buffered-apply path MatchableChange.cl
    is read from a crsql_changes row, so the selected column at the index read as i64 must be `cl`   (added after C14-c)"""
    F = ctx.F
    R = ctx.rule("C14.clcol", "K6", "match_changes_from_db_version feeds MatchableChange.cl from the `cl` column of crsql_changes (reader index = writer column)")
    b = F.get(UPD + "match_changes_from_db_version")
    if not R.anchor(b, "match_changes_from_db_version", "fn updates::match_changes_from_db_version"):
        return
    fam = F.family(b)
    sqls = [x[0] for y in fam for x in cm.sql_strings(y) if "crsql_changes" in x[0]]
    aggs = [a for y in fam for a in cm.aggregates(y, "MatchableChange")]
    if not (R.anchor(sqls, "sql", "SELECT .. FROM crsql_changes") and R.anchor(aggs, "MatchableChange", "MatchableChange construction")):
        return
    m = re.search(r"SELECT\s+(.*?)\s+FROM\s+crsql_changes", sqls[0], re.I | re.S)
    cols = [c.strip().strip('"').lower() for c in m.group(1).split(",")] if m else []
    gets = []
    for y in fam:
        for c in y.calls:
            if c.f.endswith("Row::<'_>::get") and len(c.args) > 1 and op_const(c.args[1]) is not None and c.t.get("dest"):
                gets.append((op_const(c.args[1]).get("v"), y.ty(c.t["dest"][0]), c))
    ints = [g for g in gets if re.search(r"Result<i64,", g[1] or "")]
    if not R.require(len(ints) == 1 and bool(cols), "one-int-column", b.where(), "exactly one integer column is read from the row (the causal length)",
                     fail_msg="cannot identify the causal-length read: %d integer row reads, select list %s" % (len(ints), cols)):
        return
    k = ints[0][0]
    R.require(isinstance(k, int) and k < len(cols) and cols[k] == "cl", "reads-cl", ints[0][2].where(), "row.get(%s) reads column `cl`" % k,
              fail_msg="MatchableChange.cl is read from column %r of crsql_changes (index %s), not from `cl`: the delete/update verdict (cl parity) would follow an unrelated counter"
                       % (cols[k] if isinstance(k, int) and k < len(cols) else None, k))


CACHE_TY = re.compile(r"^indexmap::map::IndexMap<\(klukai_types::api::TableName, alloc::vec::Vec<u8>\), i64")
SHRINKERS = re.compile(r"::(truncate|pop|clear|retain|retain_mut|swap_remove\w*|shift_remove\w*|remove\w*|drain|split_off|swap_take|shift_take|take)$")


def evict(ctx):
    """The causal-length cache is what suppresses an older notification that arrives after a newer one.  It is bounded, so the
    suppression window is 'the most recently touched keys' only as long as trimming removes the OLDEST entries: the one sanctioned
    shrink is `cache = cache.split_off(cache.len() - K)` (keeps the K newest, IndexMap is insertion-ordered)."""
    F = ctx.F
    R = ctx.rule("C14.evict", "K1+K4", "the causal-length cache in batch_candidates is trimmed only from its oldest end")
    cos = cm.coroutines_of(F, UPD + "batch_candidates")
    fam = [x for c in cos for x in F.family(c)]
    if not R.anchor(fam, "batch_candidates", "coroutine of batch_candidates"):
        return
    shr = [(x, c) for x in fam for c in x.calls if CACHE_TY.search(c.self_ty or "") and SHRINKERS.search(c.f)]
    news = [(x, c) for x in fam for c in x.calls if CACHE_TY.search(c.self_ty or "") and c.name() == "new"]
    if not R.anchor(news, "cache", "IndexMap<(TableName, pk), cl> cache construction"):
        return
    R.ok("shrink-sites", "", "%d shrinking call(s) on the cache: %s" % (len(shr), sorted({c.name() for _, c in shr})), nontrivial=False)
    for x, c in shr:
        inst = "%s@%d" % (c.name(), [y for _, y in shr].index(c))
        if c.name() != "split_off":
            R.fail(inst, c.where(), "the cache is shrunk with %s: entries other than the oldest can be dropped, so an older notification for a recently changed key is no longer suppressed" % c.name())
            continue
        # argument = len(cache) - const
        org = flow.origins(x, op_place(c.args[1]), at=(c.bb, "T")) if op_place(c.args[1]) is not None else set()
        from_len = any(o.kind == "call" and o.call.name() == "len" and CACHE_TY.search(o.call.self_ty or "") for o in org)
        sub = False
        al = _alias_back(x, op_place(c.args[1])[0]) if op_place(c.args[1]) is not None else set()
        for bl in x.blocks:
            for s_ in bl["s"]:
                if s_[0] == "A" and s_[1][0] in al and s_[2][0] == "bin" and s_[2][1].startswith("Sub"):
                    lo = flow.origins(x, op_place(s_[2][2]), at=None) if op_place(s_[2][2]) is not None else set()
                    if any(o.kind == "call" and o.call.name() == "len" for o in lo) and op_const(s_[2][3]) is not None:
                        sub = True
        R.require(from_len and sub, inst + ".keeps-newest", c.where(), "split_off(len - K): the tail (most recently inserted keys) is kept",
                  fail_msg="split_off is not called with `cache.len() - K`: the kept part is not the newest entries")
        # result replaces the cache
        back = False
        recv = flow.origins(x, op_place(c.args[0]), at=(c.bb, "T"))
        roots = {o.call.bb for o in recv if o.kind == "call" and o.call.name() == "new"}
        tainted, sinks = flow.taint(x, [c.dest[0]])
        cache_locals = {y.dest[0] for _, y in news if _ is x}
        back = bool(cache_locals & tainted) or c.dest[0] in cache_locals
        R.require(back and bool(roots), inst + ".assigned-back", c.where(), "the kept tail replaces the cache",
                  fail_msg="the result of split_off is not assigned back to the cache: the cache keeps its OLDEST entries and drops the newest")


def _alias_back(b, l):
    out = {l}
    changed = True
    while changed:
        changed = False
        for bl in b.blocks:
            for s in bl["s"]:
                if s[0] == "A" and len(s[1]) == 1 and s[1][0] in out and s[2][0] in ("use", "cast"):
                    op = s[2][1] if s[2][0] == "use" else s[2][2]
                    src = op_local(op)
                    if src is not None and src not in out:
                        out.add(src)
                        changed = True
    return out


def lagged(ctx):
    """A listener that fell behind the broadcast buffer has lost notifications for good; the only way it can still learn 'every
    changed key and its final fate' is to be cut off (and re-attach).  Carrying on after Lagged skips keys silently."""
    from . import C12
    C12.lag(ctx, rule_id="C14.lag", fns=(C12.FWD_UPD,))
