"""C04 — sync requests ask for everything the peer can give and nothing it cannot (narrow structural clauses)."""
import re

from corrolint import flow
from corrolint.facts import op_place, op_const, op_local
from . import common as cm

CAN = "klukai_types::sync::SyncStateV1::compute_available_needs"


def run(ctx):
    ctx.trust("rangemap RangeInclusiveSet::{remove, overlapping, contains} semantics")
    ctx.assume("soundness/completeness as set inclusions over all pairs of sync states is a value property and is not decided")
    guards(ctx)
    head(ctx)
    partial(ctx)
    complete(ctx)
    client(ctx)


def _body(F, R):
    b = F.get(CAN)
    R.anchor(b, "compute_available_needs", "fn " + CAN)
    return b


def _pushes(b):
    return [c for c in b.calls if c.f.endswith("Vec::<T, A>::push") and "SyncNeedV1" in c.self_ty]


def guards(ctx):
    F = ctx.F
    R = ctx.rule("C04.guards", "K2+K9", "no need is computed for the node's own actor id or for a peer head of 0: every push is behind both skips, evaluated per advertised head")
    b = _body(F, R)
    if b is None:
        return
    pushes = _pushes(b)
    if not R.floor(len(pushes), 4, "pushes", "SyncNeedV1 pushes"):
        return
    own = [c for c in b.calls if c.f in ("core::cmp::PartialEq::eq", "core::cmp::PartialEq::ne") and c.self_ty.endswith("ActorId")]
    zero = [c for c in b.calls if c.f in ("core::cmp::PartialEq::eq", "core::cmp::PartialEq::ne") and c.self_ty.endswith("CrsqlDbVersion")]
    heads_next = [c for c in b.calls if c.name() == "next" and "ActorId, klukai_types::base::CrsqlDbVersion" in c.self_ty and all(b.dominates(c.bb, p.bb) for p in pushes)]
    if not R.anchor(heads_next, "heads-loop", "iteration over other.heads"):
        return
    hn = heads_next[-1]
    for name, cs, want in (("own-actor", own, None), ("zero-head", zero, 0)):
        cs = [c for c in cs if all(b.dominates(c.bb, p.bb) for p in pushes)]
        if not R.require(len(cs) == 1, name + ".compare", b.where(), "one %s comparison dominating all pushes" % name,
                         fail_msg="expected one %s comparison dominating every push in compute_available_needs, found %d: the skip was removed or weakened" % (name, len(cs))):
            continue
        c = cs[0]
        tt = flow.effect_truth_table(b, [c.bb], cm.blocks_of_calls(pushes))
        is_eq = c.name() == "eq"
        when_equal = tt[(True,)] if is_eq else tt[(False,)]
        when_diff = tt[(False,)] if is_eq else tt[(True,)]
        R.require(when_diff and not when_equal, name + ".skips", c.where(), "needs are computed only when the comparison says `different` (%s)" % tt,
                  fail_msg="a need can be pushed although %s (reachability by outcome: equal=%s different=%s)" % ("the actor is the node itself" if want is None else "the peer's head is 0", when_equal, when_diff))
        tgt = b.term(hn.bb).get("tgt")
        skip = [p for p in pushes if p.bb in b.reachable(tgt, no_nodes=(c.bb, hn.bb))]
        R.require(not skip, name + ".per-head", c.where(), "every path from taking the next advertised head to a push evaluates the comparison",
                  fail_msg="some path from the heads loop to a push skips the %s comparison" % name)
        o0, o1 = cm.operand_origins(b, c, 0), cm.operand_origins(b, c, 1)
        s = cm.origin_summary(o0) + cm.origin_summary(o1)
        if want is None:
            af = cm.deep_arg_fields(b, op_place(c.args[0]), (c.bb, "T")) | cm.deep_arg_fields(b, op_place(c.args[1]), (c.bb, "T"))
            R.require(any(x.startswith("arg1.actor_id") for x in af) and any(x.startswith("arg2.heads") for x in af), name + ".operands", c.where(),
                      "compares the advertised actor (other.heads key) with self.actor_id (%s)" % s,
                      fail_msg="the own-actor skip compares %s" % s)
        else:
            k = {o.const.get("v") for o in o0 | o1 if o.kind == "const" and o.const and "v" in o.const}
            prom = set()
            for o in o0 | o1:
                if o.kind == "const" and o.const and "promoted" in o.const and o.const["promoted"] < len(b.promoted):
                    prom |= {x.get("v") for x in b.promoted[o.const["promoted"]] if "v" in x}
            af = cm.deep_arg_fields(b, op_place(c.args[0]), (c.bb, "T")) | cm.deep_arg_fields(b, op_place(c.args[1]), (c.bb, "T"))
            R.require(0 in (k | prom) and any(x.startswith("arg2.heads") for x in af), name + ".operands", c.where(), "compares the advertised head with CrsqlDbVersion(0)",
                      fail_msg="the zero-head skip compares %s with constants %s" % (s, sorted(k | prom)))


def head(ctx):
    F = ctx.F
    R = ctx.rule("C04.head", "K4", "requested Full ranges end within what the peer advertises: at its head, or inside a range of `other_haves`, which is built from 1..=head and only ever shrunk")
    b = _body(F, R)
    if b is None:
        return
    # other_haves: RangeInclusiveSet::from_iter whose element range is (const 1 ..= head)
    fi = [c for c in b.calls if c.f.endswith("FromIterator::from_iter") and "RangeInclusiveSet" in c.t.get("dty", "") and "CrsqlDbVersion" in c.t.get("dty", "")]
    if not R.require(len(fi) == 1, "other_haves", b.where(), "one RangeInclusiveSet<CrsqlDbVersion> built with from_iter", fail_msg="expected one from_iter building other_haves, found %d" % len(fi)):
        return
    hv = fi[0]
    rn = [c for c in b.calls if c.f == "core::ops::range::RangeInclusive::<Idx>::new" and "CrsqlDbVersion" in c.self_ty and b.dominates(c.bb, hv.bb)]
    ok = False
    for c in rn:
        lo = flow.origins(b, op_place(c.args[0]), at=(c.bb, "T")) if op_place(c.args[0]) is not None else set()
        hi = cm.deep_arg_fields(b, op_place(c.args[1]), (c.bb, "T"))
        if any(o.kind == "const" and o.const.get("v") == 1 for o in lo) and any(x.startswith("arg2.heads") for x in hi):
            ok = True
    R.require(ok, "haves=1..=head", hv.where(), "other_haves starts as 1..=head of the peer's advertised head", fail_msg="other_haves is not initialised from 1..=*head")
    # only removals afterwards
    hl = hv.dest[0]
    aliases = {hl}
    tainted, sinks = flow.taint(b, [hl])
    muts = []
    for c, idx in sinks:
        if 0 in idx and re.search(r"RangeInclusiveSet::<T.*>::(insert|extend|clear|append)$|::extend$", c.f):
            muts.append(c)
    R.require(not muts, "haves-only-shrinks", muts[0].where() if muts else hv.where(), "after construction other_haves is only `remove`d from / queried",
              fail_msg="other_haves is grown with %s: versions the peer never advertised could be requested" % (muts[0].f if muts else ""))
    rems = [c for c, idx in sinks if 0 in idx and re.search(r"RangeInclusiveSet::<T.*>::remove$", c.f)]
    R.require(len(rems) >= 2, "haves-removes", hv.where(), "the peer's own needs and partials are removed from other_haves (%d removals)" % len(rems),
              fail_msg="other_haves no longer has the peer's needs/partials removed: versions the peer itself lacks would be requested")
    # Full aggregates
    fulls = cm.aggregates(b, "klukai_types::sync::SyncNeedV1", "Full")
    if not R.floor(len(fulls), 2, "full-needs", "SyncNeedV1::Full constructions"):
        return
    for n, (bb, i, place, k, ops, line) in enumerate(fulls):
        p = op_place(ops[0])
        org = flow.origins(b, p, at=(bb, i), stop=lambda c: c.name() in ("min", "max", "overlapping")) if p is not None else set()
        rng = [o.call for o in org if o.kind == "call" and o.call.f == "core::ops::range::RangeInclusive::<Idx>::new"]
        # locate the range's end operand
        ends = []
        for o in org:
            if o.kind == "call" and o.call.f == "core::ops::range::RangeInclusive::<Idx>::new":
                ends.append(o.call)
        # RangeInclusive::new is transparent: look at all RangeInclusive::new calls dominating this aggregate whose result flows here
        cands = [c for c in b.calls if c.f == "core::ops::range::RangeInclusive::<Idx>::new" and "CrsqlDbVersion" in c.self_ty and b.can_reach(c.bb, bb) and not b.dominates(c.bb, hv.bb)]
        cands = [c for c in cands if c.bb in {o.call.bb for o in flow.origins(b, p, at=(bb, i), stop=lambda cc: cc.name() == "new") if o.kind == "call"}] if p is not None else []
        if not R.anchor(cands, "full#%d.range" % n, "the range expression of Full #%d" % n):
            continue
        for ci, c in enumerate(cands):
            eo = flow.origins(b, op_place(c.args[1]), at=(c.bb, "T"), stop=lambda cc: cc.name() in ("min", "max"))
            via_min = [o.call for o in eo if o.kind == "call" and o.call.name() == "min"]
            if via_min:
                m = via_min[0]
                names = cm.deep_names(b, op_place(m.args[0]), (m.bb, "T"))[1] | cm.deep_names(b, op_place(m.args[1]), (m.bb, "T"))[1]
                src = flow.origins(b, op_place(m.args[1]), at=(m.bb, "T"), stop=lambda cc: cc.name() in ("overlapping", "end"))
                from_overlap = "overlapping" in names or any(o.kind == "call" and o.call.name() in ("overlapping", "next") for o in src)
                R.require(from_overlap, "full#%d.%d.end" % (n, ci), c.where(), "range end = min(our range end, end of an overlapping range of other_haves)",
                          fail_msg="Full need #%d ends at min(..) of %s: not bounded by what the peer has" % (n, sorted(names)))
            else:
                af = cm.deep_arg_fields(b, op_place(c.args[1]), (c.bb, "T"))
                R.require(bool(af) and all(x.startswith("arg2.heads") for x in af), "full#%d.%d.end" % (n, ci), c.where(), "range end = the peer's advertised head (%s)" % sorted(af),
                          fail_msg="Full need #%d ends at %s, not at the peer's advertised head: the request can exceed what the peer advertises" % (n, sorted(af)))


def partial(ctx):
    F = ctx.F
    R = ctx.rule("C04.partial", "K4", "Partial needs are requested only for versions we hold partially, and only if the peer fully has the version or holds it partially itself")
    b = _body(F, R)
    if b is None:
        return
    parts = cm.aggregates(b, "klukai_types::sync::SyncNeedV1", "Partial")
    if not R.floor(len(parts), 2, "partial-needs", "SyncNeedV1::Partial constructions"):
        return
    contains = [c for c in b.calls if re.search(r"RangeInclusiveSet::<T.*>::contains$", c.f) and "CrsqlDbVersion" in c.self_ty]
    for n, (bb, i, place, k, ops, line) in enumerate(parts):
        vi = k["fields"].index("version")
        org = flow.origins(b, op_place(ops[vi]), at=(bb, i)) if op_place(ops[vi]) is not None else set()
        s = sorted(cm.deep_arg_fields(b, op_place(ops[vi]), (bb, i)))
        R.require(bool(s) and all(x.startswith("arg1.partial_need") for x in s), "partial#%d.version" % n, "%s:%d" % (b.file, line), "the version comes from our own partial_need (%s)" % s,
                  fail_msg="Partial need #%d asks for version from %s, not from our partial_need" % (n, s))
        # guarded by contains(v)==true or by the peer's partial map having v
        guarded = False
        for c in contains:
            te, fe = flow.true_false_targets(b, c)
            if te and b.edges_dominate(te, bb):
                guarded = True
            if fe and b.edges_dominate(fe, bb):
                # the else-branch: must additionally be under the Some edge of other.partial_need lookup
                gets = [g for g in b.calls if g.name() in ("and_then", "get") and b.dominates(c.bb, g.bb) and b.dominates(g.bb, bb)]
                for g in gets:
                    for sw, m, other in flow.variant_edges(b, g.dest):
                        if b.edge_dominates((sw, m.get(1, other)), bb):
                            guarded = True
        R.require(guarded, "partial#%d.guard" % n, "%s:%d" % (b.file, line), "requested only when other_haves.contains(v) or the peer lists v as partial",
                  fail_msg="Partial need #%d is requested without checking that the peer has (part of) the version" % n)


def client(ctx):
    F = ctx.F
    R = ctx.rule("C04.client", "K4", "the sync client sends only requests derived from compute_available_needs of (our state, the peer's advertised state)")
    ps = [b for b in F.find(r"^klukai_agent::api::peer::parallel_sync") if any((c.t.get("r") or c.f) == CAN for c in b.calls)]
    if not R.anchor(ps, "call-site", "compute_available_needs call in parallel_sync"):
        return
    b = ps[0]
    c = [c for c in b.calls if (c.t.get("r") or c.f) == CAN][0]
    o0 = cm.origin_summary(cm.operand_origins(b, c, 0))
    o1 = cm.operand_origins(b, c, 1)
    R.require(any("our_sync_state" in x for x in o0), "our-state", c.where(), "receiver is our own sync state (%s)" % o0, fail_msg="compute_available_needs is called on %s" % o0)
    from_peer = "read_sync_msg" in cm.deep_names(b, op_place(c.args[1]), (c.bb, "T"), hops=8, nargs=2)[1]
    R.require(from_peer, "their-state", c.where(), "argument is the state message read from the peer", fail_msg="compute_available_needs is given %s" % cm.origin_summary(o1))
    callers = {F.root_fn(x.body).id for x in F.callers_of(CAN)}
    R.require(callers == {"klukai_agent::api::peer::parallel_sync"}, "single-caller", "", "compute_available_needs is used only by parallel_sync",
              fail_msg="compute_available_needs callers: %s" % sorted(callers))
    # requests: SyncMessageV1::Request aggregates in parallel_sync family derive from `needs`
    fam = [x for x in F.find(r"^klukai_agent::api::peer::parallel_sync")]
    reqs = [(x,) + a for x in fam for a in cm.aggregates(x, "klukai_types::sync::SyncMessageV1", "Request")]
    R.require(bool(reqs), "request-ctor", "", "%d SyncMessageV1::Request construction(s) in parallel_sync" % len(reqs), fail_msg="no Request construction found in parallel_sync")


def _heads_next(b, pushes):
    hs = [c for c in b.calls if c.name() == "next" and "ActorId, klukai_types::base::CrsqlDbVersion" in c.self_ty and all(b.dominates(c.bb, p.bb) for p in pushes)]
    return hs[-1] if hs else None


def complete(ctx):
    """Completeness, structural half: an advertised head may be passed over only by the two sanctioned skips (own actor,
    head 0).  Otherwise the iteration must consult our need ranges, our partial_need map and our head for that actor, and each
    productive branch must reach its push.  (That the pushed ranges are the full set difference is a value property: not decided.)"""
    F = ctx.F
    R = ctx.rule("C04.complete", "K2", "every advertised head that is not the node's own actor or 0 consults self.need, self.partial_need and self.heads, and each productive branch reaches its push")
    b = _body(F, R)
    if b is None:
        return
    pushes = _pushes(b)
    hn = _heads_next(b, pushes)
    if not R.anchor(hn, "heads-loop", "iteration over other.heads"):
        return
    start = b.term(hn.bb).get("tgt")
    skip_edges = []
    for c in b.calls:
        if c.f in ("core::cmp::PartialEq::eq", "core::cmp::PartialEq::ne") and (c.self_ty.endswith("ActorId") or c.self_ty.endswith("CrsqlDbVersion")) and all(b.dominates(c.bb, p.bb) for p in pushes):
            te, fe = flow.true_false_targets(b, c)
            skip_edges += te if c.name() == "eq" else fe
    if not R.floor(len(skip_edges), 2, "skips", "sanctioned skip edges (own actor / zero head)"):
        return
    gets = [c for c in b.calls if c.f.endswith("HashMap::<K, V, S>::get") and b.dominates(hn.bb, c.bb)]
    want = {"need": None, "partial_need": None, "heads": None}
    for g in gets:
        af = cm.deep_arg_fields(b, op_place(g.args[0]), (g.bb, "T"))
        for k in want:
            if af and all(x == "arg1." + k or x.startswith("arg1." + k + ".") for x in af) and want[k] is None:
                # the lookup consulted once per advertised head (not the nested one inside the partials loop)
                if not any(b.dominates(o.bb, g.bb) and o is not g for o in gets if cm.deep_arg_fields(b, op_place(o.args[0]), (o.bb, "T")) == af):
                    want[k] = g
    for k, g in sorted(want.items()):
        if not R.anchor(g, "self." + k, "per-head lookup self.%s.get(actor_id)" % k):
            continue
        bypass = b.can_reach(start, hn.bb, no_nodes=(g.bb,), no_edges=skip_edges)
        R.require(not bypass, "consults-self." + k, g.where(), "every non-skipped advertised head reaches self.%s.get(actor_id)" % k,
                  fail_msg="an advertised head can be passed over without consulting self.%s (a path from the heads loop back to its next() avoids the lookup and both sanctioned skips): versions/ranges the peer has and we lack are not requested" % k)
    # productive branches reach their push
    # (1) each overlap of one of our need ranges with other_haves -> Full push
    ov = [c for c in b.calls if c.name() == "next" and "Overlapping" in c.self_ty and "CrsqlDbVersion" in c.self_ty]
    if R.anchor(ov, "overlap-loop", "iteration over other_haves.overlapping(range)"):
        o = ov[0]
        some = _some_target(b, o)
        full_push = [p for p in pushes if b.dominates(o.bb, p.bb)]
        R.require(some is not None and full_push and not b.can_reach(some, o.bb, no_nodes=tuple(p.bb for p in full_push)), "overlap-pushes", o.where(),
                  "every overlap of a needed range with what the peer has is pushed as a Full need",
                  fail_msg="an overlap between our need and the peer's haves can be dropped without a push")
    # (2) contains(v) true -> Partial push
    cont = [c for c in b.calls if re.search(r"RangeInclusiveSet::<T.*>::contains$", c.f) and "CrsqlDbVersion" in c.self_ty]
    pn = [c for c in b.calls if c.name() == "next" and "CrsqlSeq" in c.self_ty and "hash::map::Iter" in c.self_ty and want["partial_need"] is not None and b.dominates(want["partial_need"].bb, c.bb)]
    if R.anchor(cont, "contains", "other_haves.contains(v)") and R.anchor(pn, "partials-loop", "iteration over our partial_need[actor]"):
        c = cont[0]
        te, fe = flow.true_false_targets(b, c)
        ok = bool(te)
        for (u, v) in te:
            if b.can_reach(v, pn[0].bb, no_nodes=tuple(p.bb for p in pushes)):
                ok = False
        R.require(ok, "contains-pushes", c.where(), "a partially held version the peer fully has is always requested",
                  fail_msg="when other_haves.contains(v) a path reaches the next partial without pushing a Partial need")
        some = _some_target(b, pn[0])
        R.require(some is not None and not b.can_reach(some, pn[0].bb, no_nodes=(c.bb,)), "contains-per-partial", c.where(), "every partially held version is tested against other_haves",
                  fail_msg="a partially held version can be passed over without testing other_haves.contains(v)")
    # (3) head comparison: peer ahead (or actor unknown to us) -> Full push of the tail
    hg = want["heads"]
    gt = [c for c in b.calls if c.f.startswith("core::cmp::PartialOrd::") and "CrsqlDbVersion" in c.self_ty and hg is not None and b.dominates(hg.bb, c.bb)]
    if hg is not None and R.anchor(gt, "head-compare", "comparison of the peer's head with ours"):
        c = gt[0]
        tail_push = [p for p in pushes if b.dominates(c.bb, p.bb) or b.dominates(hg.bb, p.bb)]
        # the comparison decides: one outcome forces the tail push on every path back to the heads loop (as a branch, or
        # handed to bool::then), the other allows skipping it; and the forcing outcome is the one meaning `peer head > ours`
        tgt = b.term(c.bb).get("tgt")
        forced = [v for v in (True, False) if tgt is not None and tail_push and
                  hn.bb not in flow.variant_reach(b, tgt, no_nodes=tuple(p.bb for p in tail_push), assume={c.dest[0]: v})]
        ok = len(forced) == 1
        if ok:
            a0 = cm.deep_arg_fields(b, op_place(c.args[0]), (c.bb, "T")) if op_place(c.args[0]) is not None else set()
            a1 = cm.deep_arg_fields(b, op_place(c.args[1]), (c.bb, "T")) if op_place(c.args[1]) is not None else set()
            peer_first = any(x.startswith("arg2.heads") for x in a0) and any(x.startswith("arg1.heads") for x in a1)
            ours_first = any(x.startswith("arg1.heads") for x in a0) and any(x.startswith("arg2.heads") for x in a1)
            greater = c.name() in ("gt", "ge")
            # truth value of the call that means "peer is ahead"
            means_ahead = (greater if peer_first else (not greater)) if (peer_first or ours_first) else None
            ok = means_ahead is not None and forced[0] == means_ahead
        R.require(ok, "ahead-pushes", c.where(), "when the head comparison succeeds the missing tail is pushed",
                  fail_msg="the peer's head is ahead of ours but a path returns to the heads loop without pushing the tail")
        # unknown actor: None edge of self.heads.get -> push
        ve = flow.variant_edges(b, hg.dest)
        okn = bool(ve)
        for sw, m, other in ve:
            none_t = m.get(0, other)
            if hn.bb in flow.variant_reach(b, none_t, no_nodes=tuple(p.bb for p in tail_push), no_edges=[(sw, x) for v_, x in m.items() if v_ != 0]):
                okn = False
        R.require(okn, "unknown-actor-pushes", hg.where(), "an actor we have never heard of is requested from 1..=head",
                  fail_msg="self.heads.get(actor) == None can return to the heads loop without pushing 1..=head")


def _some_target(b, next_call):
    for sw, m, other in flow.variant_edges(b, next_call.dest):
        return m.get(1, other)
    return None
