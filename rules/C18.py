"""C18 — the membership view follows the newest identity of each peer (structural clauses).

Decides: add_member / remove_member timestamp guard truth tables over the three orderings of (incoming ts, stored ts);
the two indexes (states, by_addr) are updated in pairs on every path; recalculate_rings writes only `ring` of the member
found through by_addr; ring0 requires ring == 0 and the same cluster; SWIM notifications map to add/remove;
win_addr_conflict is `self.ts > adversary.ts`.
"""
import re

from corrolint import flow
from corrolint.facts import op_place, op_const, op_local
from . import common as cm

M = "klukai_types::members::Members"
MS = "klukai_types::members::MemberState"


def run(ctx):
    ctx.trust("foca delivers MemberUp/MemberDown notifications with the peer's identity (Actor)", "BTreeMap semantics")
    ctx.assume("the fold over all notification sequences and RTT averaging arithmetic are not decided")
    add(ctx)
    remove(ctx)
    index(ctx)
    rtt(ctx)
    notify(ctx)
    identity(ctx)


def _field_writes(F, b, adt, fields):
    """per field: [(body, bb, how, line)] of assignments; a whole-value replacement `*member = MemberState { .. }` through a
    reference counts as an assignment of every field (how = 'assign-struct:<operand index>')"""
    out = {}
    for f in fields:
        out[f] = [x for x in cm.field_mutation_sites(F, adt, f, [b]) if x[2].startswith("assign")]
    adt_def = F.adts.get(adt)
    names = [fd["name"] for fd in adt_def["variants"][0]["fields"]] if adt_def and adt_def.get("variants") else []
    live = b.live_blocks()
    for bb, bl in enumerate(b.blocks):
        if bb not in live:
            continue
        for st in bl["s"]:
            if st[0] == "A" and "*" in st[1][1:] and not any(isinstance(p, list) and p[0] == "f" for p in st[1][1:]):
                rv = st[2]
                src = None
                if rv[0] == "agg" and isinstance(rv[1], dict) and rv[1].get("adt") == adt:
                    src = (bb, rv)
                elif rv[0] == "use" and op_place(rv[1]) is not None and len(op_place(rv[1])) == 1 and b.ty(op_place(rv[1])[0]) == adt:
                    for d in b.defs.get(op_place(rv[1])[0], []):
                        if d[2] == "assign" and d[3][1][0] == "agg" and isinstance(d[3][1][1], dict) and d[3][1][1].get("adt") == adt:
                            src = (d[0], d[3][1])
                if src is not None:
                    for f in fields:
                        if f in names:
                            out[f].append((b, bb, "assign-struct:%d:%d" % (src[0], names.index(f)), st[3]))
    return out


def _ts_compares(b):
    """ordering comparisons between the incoming actor's ts and the stored member's ts; returns [(call, a_first)]
    with role A = incoming (actor), B = stored (member)"""
    out = []
    for c in b.calls:
        if c.noise or not flow.is_compare(c):
            continue
        if not re.search(r"Duration|Timestamp|NTP64", c.self_ty):
            continue
        roles = []
        for i in (0, 1):
            org = cm.operand_origins(b, c, i)
            # follow through to_duration()/ts() receivers
            names = set()
            work = list(org)
            hops = 0
            while work and hops < 40:
                o = work.pop()
                hops += 1
                if o.kind == "call":
                    names.add("call:" + o.call.name())
                    if o.call.args and op_place(o.call.args[0]) is not None:
                        work += list(flow.origins(b, op_place(o.call.args[0]), at=(o.call.bb, "T")))
                elif o.kind == "arg":
                    names.add("arg%d" % o.local)
                    names |= {"field:" + f for f in o.field_names()}
            incoming = ("arg2" in names) and not any(n in names for n in ("call:or_insert_with", "call:entry", "call:get", "call:get_mut"))
            stored = any(n in names for n in ("call:or_insert_with", "call:entry", "call:get", "call:get_mut"))
            roles.append("A" if incoming and not stored else ("B" if stored else "?"))
        if roles == ["A", "B"]:
            out.append((c, True))
        elif roles == ["B", "A"]:
            out.append((c, False))
    return out


# ------------------------------------------------------------------------------------------------ add_member
def add(ctx, rule_id="C18.add", desc="add_member: older identity => Ignored and nothing written; newer identity => addr, ts, cluster_id all replaced; equal => nothing overwritten"):
    F = ctx.F
    R = ctx.rule(rule_id, "K9", desc)
    b = F.get(M + "::add_member")
    if not R.anchor(b, "add_member", "fn Members::add_member"):
        return
    cmps = _ts_compares(b)
    if not R.floor(len(cmps), 1, "ts-compares", "comparisons of incoming vs stored identity timestamp"):
        return
    fw = _field_writes(F, b, MS, ("addr", "ts", "cluster_id"))
    wblocks = {f: sorted({x[1] for x in v}) for f, v in fw.items()}
    for f in ("addr", "ts", "cluster_id"):
        R.anchor(wblocks[f], "write." + f, "assignment to member.%s in add_member" % f)
    vals = flow.ordering_valuations(cmps)
    allw = sorted({bb for v in wblocks.values() for bb in v})
    for o, name in (("<", "older"), ("=", "equal"), (">", "newer")):
        reach, rets = flow.eval_guard(b, vals[o])
        written = {f: any(bb in reach for bb in bbs) for f, bbs in wblocks.items()}
        if o == ">":
            R.require(all(written.values()), "newer-overwrites-all", b.where(), "a newer identity replaces addr, ts and cluster_id (%s)" % written,
                      fail_msg="for a newer identity add_member does not replace all of addr/ts/cluster_id: %s" % written)
            # and it must do so on every path to return (no path skipping the update)
            for f, bbs in wblocks.items():
                r2, _ = flow.eval_reach(b, vals[o], no_nodes=bbs)
                rets_reached = [x for x in b.return_blocks() if x in r2]
                # NewMember path legitimately skips overwrites only when timestamps are equal; under '>' no return may be reached without the write
                R.require(not rets_reached, "newer-must-write." + f, b.where(), "under a newer timestamp every path to return assigns member.%s" % f,
                          fail_msg="for a newer identity there is a path through add_member that returns without updating member.%s" % f)
        else:
            R.require(not any(written.values()), "%s-writes-nothing" % name, b.where(), "an %s identity overwrites nothing (%s)" % (name, written),
                      fail_msg="add_member overwrites %s although the incoming identity is %s than/as the stored one" % ([f for f, w in written.items() if w], name))
    # older => by_addr untouched as well
    by = [c for c in b.calls if re.search(r"BTreeMap::<K, V, A>::(insert|remove)$", c.f) and _on_field(b, c, "by_addr")]
    reach, _ = flow.eval_guard(b, vals["<"])
    R.require(not any(c.bb in reach for c in by), "older-leaves-index", b.where(), "an older identity does not touch by_addr",
              fail_msg="add_member modifies by_addr for an older identity")
    # values assigned come from the actor
    for f, sites in fw.items():
        for (bb_body, bb, how, line) in sites:
            if how.startswith("assign-struct:"):
                abb, idx = int(how.split(":")[1]), int(how.split(":")[2])
                want = {"addr": "addr", "ts": "ts", "cluster_id": "cluster_id"}[f]
                org = set()
                for i, s in enumerate(b.blocks[abb]["s"]):
                    if s[0] == "A" and s[2][0] == "agg" and isinstance(s[2][1], dict) and s[2][1].get("adt") == MS and idx < len(s[2][2]) and op_place(s[2][2][idx]) is not None:
                        org = flow.origins(b, op_place(s[2][2][idx]), at=(abb, i))
                ok = bool(org) and all(o.kind == "call" and o.call.name() == want for o in org)
                R.require(ok, "value." + f, "%s:%d" % (b.file, line), "member.%s = actor.%s() (whole-value replacement)" % (f, want),
                          fail_msg="member.%s is assigned from %s, not from actor.%s(): the member keeps part of its previous identity" % (f, cm.origin_summary(org), want))
                continue
            for i, s in enumerate(b.blocks[bb]["s"]):
                if s[0] == "A" and s[3] == line and any(isinstance(p, list) and p[0] == "f" and p[2] == f for p in s[1][1:]):
                    src = op_place(s[2][1]) if s[2][0] == "use" else None
                    org = flow.origins(b, src, at=(bb, i)) if src is not None else set()
                    want = {"addr": "addr", "ts": "ts", "cluster_id": "cluster_id"}[f]
                    ok = bool(org) and all(o.kind == "call" and o.call.name() == want for o in org)
                    R.require(ok, "value." + f, "%s:%d" % (b.file, line), "member.%s = actor.%s()" % (f, want),
                              fail_msg="member.%s is assigned from %s, not from actor.%s()" % (f, cm.origin_summary(org), want))


def _on_field(b, c, field):
    org = cm.operand_origins(b, c, 0)
    return any(field in o.field_names() for o in org)


# ------------------------------------------------------------------------------------------------ remove_member
def remove(ctx):
    F = ctx.F
    R = ctx.rule("C18.remove", "K9", "remove_member removes the entry iff it exists and the stored identity timestamp equals the notification's")
    b = F.get(M + "::remove_member")
    if not R.anchor(b, "remove_member", "fn Members::remove_member"):
        return
    eqs = [c for c in b.calls if c.f in ("core::cmp::PartialEq::eq", "core::cmp::PartialEq::ne") and re.search(r"Timestamp|Duration|NTP64", c.self_ty)]
    if not eqs:
        return _remove_via_closure(ctx, R, b)
    if not R.require(len(eqs) == 1, "ts-eq", b.where(), "one timestamp equality in remove_member", fail_msg="expected one timestamp equality in remove_member, found %d (>= / <= would let an older identity remove a newer one)" % len(eqs)):
        # also catch ordering compares used instead
        return
    c = eqs[0]
    rems = [x for x in b.calls if re.search(r"BTreeMap::<K, V, A>::remove$", x.f)]
    st = [x for x in rems if _on_field(b, x, "states")]
    ba = [x for x in rems if _on_field(b, x, "by_addr")]
    if not (R.anchor(st, "states.remove", "self.states.remove") and R.anchor(ba, "by_addr.remove", "self.by_addr.remove")):
        return
    ok, d = cm.effect_only_when_equal(b, c, cm.blocks_of_calls(st + ba))
    R.require(ok, "remove-iff-equal", c.where(), "entries are removed only when member.ts == actor.ts() (%s)" % d,
              fail_msg="remove_member removes the entry although the identity timestamps differ: %s" % d)
    # absent entry => nothing removed: the None arm yields false
    gets = [x for x in b.calls if re.search(r"BTreeMap::<K, V, A>::get$", x.f) and _on_field(b, x, "states")]
    if R.anchor(gets, "states.get", "self.states.get(&actor.id())"):
        ve = flow.variant_edges(b, gets[0].dest)
        if R.anchor(ve, "get-match", "match on states.get result"):
            sw, m, other = ve[0]
            none_t = m.get(0, other)
            reach = b.reachable(none_t, no_nodes=(c.bb,))
            # from the None arm, removal must be unreachable: evaluate with the bool flag false
            R.require(c.bb not in b.reachable(none_t), "none-skips-compare", b.where(sw), "an unknown actor is not compared")
    # paired: both removes are in the same region
    R.require(all(b.can_reach(x.bb, y.bb) or b.can_reach(y.bb, x.bb) for x in st for y in ba), "paired", st[0].where(), "states.remove and by_addr.remove are on the same path",
              fail_msg="states.remove and by_addr.remove are not on the same path: indexes diverge")
    # operands: stored ts vs actor ts
    o0, o1 = cm.origin_summary(cm.operand_origins(b, c, 0)), cm.origin_summary(cm.operand_origins(b, c, 1))
    R.require(any("ts" in x for x in o0 + o1), "operands", c.where(), "compares member.ts with actor.ts() (%s vs %s)" % (o0, o1))


def _remove_via_closure(ctx, R, b):
    """`self.states.get(&id).map(|member| member.ts == actor.ts()).unwrap_or(false)`: the equality lives in the closure"""
    F = ctx.F
    ceqs = [(x, c) for x in F.family(b) if x.kind == "closure" for c in x.calls
            if c.f in ("core::cmp::PartialEq::eq", "core::cmp::PartialEq::ne") and re.search(r"Timestamp|Duration|NTP64", c.self_ty)]
    if not R.require(len(ceqs) == 1, "ts-eq", b.where(), "one timestamp equality decides remove_member",
                     fail_msg="expected one timestamp equality in remove_member, found %d (>= / <= would let an older identity remove a newer one)" % len(ceqs)):
        return
    cl, c = ceqs[0]
    rv = flow.return_truth_table(cl, [c.bb])
    want_t, want_f = ((True,), (False,)) if c.name() == "eq" else ((False,), (True,))
    R.require(rv[want_t] == {True} and rv[want_f] == {False}, "closure-returns-compare", c.where(), "the closure answers `same timestamp`", fail_msg="the closure does not return the timestamp equality: %s" % rv)
    o0, o1 = cm.origin_summary(cm.operand_origins(cl, c, 0)), cm.origin_summary(cm.operand_origins(cl, c, 1))
    R.require(any("ts" in x for x in o0 + o1), "operands", c.where(), "compares member.ts with actor.ts() (%s vs %s)" % (o0, o1))
    uw = [u for u in b.calls if re.search(r"Option::<T>::(unwrap_or|is_some_and|map_or|unwrap_or_default)$", u.f) and u.t.get("dty") == "bool"]
    if not R.require(len(uw) == 1, "flag", b.where(), "one bool flag from states.get(..).map(..)", fail_msg="expected one bool-valued Option combinator in remove_member, found %d" % len(uw)):
        return
    u = uw[0]
    if u.name() == "unwrap_or":
        k = op_const(u.args[1])
        R.require(k is not None and k.get("v") == 0, "absent-is-false", u.where(), "an unknown actor yields false", fail_msg="an unknown actor is treated as present")
    rems = [x for x in b.calls if re.search(r"BTreeMap::<K, V, A>::remove$", x.f)]
    st = [x for x in rems if _on_field(b, x, "states")]
    ba = [x for x in rems if _on_field(b, x, "by_addr")]
    if not (R.anchor(st, "states.remove", "self.states.remove") and R.anchor(ba, "by_addr.remove", "self.by_addr.remove")):
        return
    tgt = b.term(u.bb)["tgt"]
    res = {}
    for v in (False, True):
        reach, _ = flow.eval_guard(b, {u.bb: v}, start=tgt, env0={u.dest[0]: v})
        res[v] = any(x.bb in reach for x in st + ba)
    R.require(res[True] and not res[False], "remove-iff-equal", u.where(), "entries are removed only when the timestamps are equal (%s)" % res,
              fail_msg="remove_member removes the entry although the identity timestamps differ: %s" % res)
    R.require(all(b.can_reach(x.bb, y.bb) or b.can_reach(y.bb, x.bb) for x in st for y in ba), "paired", st[0].where(), "states.remove and by_addr.remove are on the same path",
              fail_msg="states.remove and by_addr.remove are not on the same path: indexes diverge")


# ------------------------------------------------------------------------------------------------ index pairing
def index(ctx):
    F = ctx.F
    R = ctx.rule("C18.index", "K6", "states and by_addr are updated in pairs: new member => by_addr.insert; identity update changing addr => by_addr re-keyed and rings recalculated")
    b = F.get(M + "::add_member")
    if not R.anchor(b, "add_member", "fn Members::add_member"):
        return
    cmps = _ts_compares(b)
    vals = flow.ordering_valuations(cmps)
    ins = [c for c in b.calls if re.search(r"BTreeMap::<K, V, A>::insert$", c.f) and _on_field(b, c, "by_addr")]
    rem = [c for c in b.calls if re.search(r"BTreeMap::<K, V, A>::remove$", c.f) and _on_field(b, c, "by_addr")]
    rec = [c for c in b.calls if (c.t.get("r") or c.f) == M + "::recalculate_rings"]
    newcmp = [c for c in b.calls if c.f in ("core::cmp::PartialEq::eq", "core::cmp::PartialEq::ne") and "MemberAddedResult" in c.self_ty]
    if not (R.anchor(ins, "by_addr.insert", "self.by_addr.insert in add_member") and R.anchor(rec, "recalculate_rings", "recalculate_rings call in add_member")):
        return
    addr_writes = sorted({x[1] for x in _field_writes(F, b, MS, ("addr",))["addr"]})
    # scenario U: existing entry, newer identity (ret was not NewMember when compared)
    atoms = dict(vals[">"])
    for c in newcmp:
        atoms[c.bb] = (c.name() == "ne")  # `ret == NewMember` is false
    # restrict to paths that performed the address overwrite
    for what, calls in (("by_addr.insert(new addr)", ins), ("recalculate_rings", rec), ("by_addr.remove(old addr)", rem)):
        if not calls:
            R.fail("update-rekeys:" + what.split("(")[0], b.where(), "identity update (newer ts, existing member) never performs %s: by_addr keeps mapping the old address and the new address has no ring" % what)
            continue
        ok_any = False
        for w in addr_writes:
            reach, _ = flow.eval_guard(b, atoms, start=w)
            if any(c.bb in reach for c in calls):
                # must: return unreachable from the write without passing one of the calls
                # (the removal of the old key may be conditional on the key still pointing at this actor)
                if what.startswith("by_addr.remove"):
                    ok_any = True
                    continue
                r2, _ = flow.eval_reach(b, atoms, no_nodes={c.bb for c in calls}, start=w)
                if not any(x in r2 for x in b.return_blocks()):
                    ok_any = True
        R.require(ok_any, "update-rekeys:" + what.split("(")[0], b.where(addr_writes[0]) if addr_writes else b.where(),
                  "after overwriting member.addr of an existing entry, %s always follows" % what,
                  fail_msg="when a newer identity changes a member's address, %s is not performed: by_addr stays keyed by the old address, RTT samples for the new address are never attributed (ring stays stale/None)" % what)
    # scenario N: new member => by_addr.insert + recalc must happen
    if newcmp:
        atoms = dict(vals["="])
        for c in newcmp:
            atoms[c.bb] = (c.name() == "eq")
        r2, _ = flow.eval_reach(b, atoms, no_nodes={c.bb for c in ins})
        R.require(not any(x in r2 for x in b.return_blocks()), "new-member-indexed", ins[0].where(), "a new member is always inserted into by_addr",
                  fail_msg="a new member can be added to states without being inserted into by_addr")
    # by_addr.insert arguments are (actor.addr(), actor.id())
    for c in ins:
        a1, a2 = cm.operand_origins(b, c, 1), cm.operand_origins(b, c, 2)
        ok = all(o.kind == "call" and o.call.name() == "addr" for o in a1) and all(o.kind == "call" and o.call.name() == "id" for o in a2) and a1 and a2
        R.require(ok, "insert-args#%d" % ins.index(c), c.where(), "by_addr.insert(actor.addr(), actor.id())",
                  fail_msg="by_addr.insert is given %s -> %s" % (cm.origin_summary(a1), cm.origin_summary(a2)))
    guarded_removes(ctx, R)
    # inventory: who mutates Members.states / by_addr at all
    allowed = {"states": {M + "::add_member", M + "::remove_member", M + "::update_sync_ts", M + "::recalculate_rings"},
               "by_addr": {M + "::add_member", M + "::remove_member", "klukai_agent::agent::util::initialise_foca"}}
    for f, ok_set in allowed.items():
        sites = cm.field_mutation_sites(F, M, f)
        roots = {}
        for (bd, bb, how, line) in sites:
            if bd.impl_trait in ("core::default::Default", "core::clone::Clone"):
                continue
            roots.setdefault(F.root_fn(bd).id, "%s:%d" % (bd.file, line))
        for rid, where in sorted(roots.items()):
            R.require(rid in ok_set, "mutator:%s@%s" % (f, rid), where, "Members.%s mutated in %s" % (f, rid.rsplit("::", 1)[-1]),
                      fail_msg="Members.%s is mutated in %s, outside the paired-update functions" % (f, rid))


def guarded_removes(ctx, R, bodies=None):
    """an address may meanwhile belong to another member: by_addr.remove(addr) must be guarded by by_addr[addr] == this actor"""
    F = ctx.F
    n = 0
    for fn in (M + "::add_member", M + "::remove_member"):
        b = F.get(fn)
        if b is None:
            continue
        rems = [c for c in b.calls if re.search(r"BTreeMap::<K, V, A>::remove$", c.f) and _on_field(b, c, "by_addr")]
        for c in rems:
            n += 1
            # `by_addr.get(&addr) == Some(&id)` (Option equality) or `match by_addr.get(&addr) { Some(owner) => *owner == id, None => false }`
            eqs = [e for e in b.calls if e.f in ("core::cmp::PartialEq::eq", "core::cmp::PartialEq::ne") and "ActorId" in e.self_ty and (b.dominates(e.bb, c.bb) or flow.vdominates(b, e.bb, c.bb) or b.can_reach(e.bb, c.bb))]
            ok = False
            why = "no dominating comparison of by_addr.get(addr) with the actor's id"
            for e in eqs:
                src = cm.deep_names(b, op_place(e.args[0]), (e.bb, "T"))[1] | cm.deep_names(b, op_place(e.args[1]), (e.bb, "T"))[1]
                flds = cm.deep_names(b, op_place(e.args[0]), (e.bb, "T"))[0] | cm.deep_names(b, op_place(e.args[1]), (e.bb, "T"))[0]
                if "get" not in src or "by_addr" not in flds:
                    continue
                good, d = cm.effect_only_when_equal(b, e, [c.bb])
                # the removal must not be reachable without the comparison having been made and found equal
                # (entry -> remove avoiding the comparison: only infeasible join paths may remain, hence variant-sensitive)
                if good and c.bb not in flow.variant_reach(b, 0, no_nodes=(e.bb,)):
                    ok = True
                elif good:
                    # `None => false` arm joins the flag: evaluate the flag path-sensitively from the entry with the comparison false
                    reach, _ = flow.eval_guard(b, {e.bb: (e.name() != "eq")})
                    if c.bb not in reach:
                        ok = True
                else:
                    why = "reachability by comparison outcome: %s" % d
            R.require(ok, "remove-guarded@%s" % fn.rsplit("::", 1)[-1], c.where(), "by_addr.remove(addr) happens only if by_addr[addr] still maps to this actor",
                      fail_msg="%s removes by_addr[addr] unconditionally (%s): if another member now lives at that address its entry is erased and its round-trip samples are no longer attributed" % (fn.rsplit("::", 1)[-1], why))
    R.floor(n, 2, "by_addr-removes", "by_addr.remove sites")


# ------------------------------------------------------------------------------------------------ rtt
def rtt(ctx):
    F = ctx.F
    R = ctx.rule("C18.rtt", "K4", "recalculate_rings resolves the member through by_addr[addr] and writes only that member's ring")
    b = F.get(M + "::recalculate_rings")
    if not R.anchor(b, "recalculate_rings", "fn Members::recalculate_rings"):
        return
    gm = [c for c in b.calls if re.search(r"BTreeMap::<K, V, A>::get_mut$", c.f) and _on_field(b, c, "states")]
    if R.anchor(gm, "states.get_mut", "self.states.get_mut(actor_id)"):
        org = cm.operand_origins(b, gm[0], 1)
        ok = bool(org) and all(o.kind == "call" and re.search(r"BTreeMap::<K, V, A>::get$", o.call.f) and _on_field(b, o.call, "by_addr") for o in org)
        R.require(ok, "via-by_addr", gm[0].where(), "the member is looked up with the id stored in by_addr[addr]",
                  fail_msg="recalculate_rings looks the member up with %s, not with by_addr[addr]" % cm.origin_summary(org))
    written = set()
    for f in ("addr", "ts", "cluster_id", "ring", "last_sync_ts"):
        if [x for x in cm.field_mutation_sites(F, MS, f, [b]) if x[2].startswith("assign")]:
            written.add(f)
    R.require(written == {"ring"}, "writes-only-ring", b.where(), "recalculate_rings assigns only MemberState.ring", fail_msg="recalculate_rings assigns %s" % sorted(written))
    a = F.get(M + "::add_rtt")
    if R.anchor(a, "add_rtt", "fn Members::add_rtt"):
        rc = [c for c in a.calls if (c.t.get("r") or c.f) == M + "::recalculate_rings"]
        if R.anchor(rc, "add_rtt.recalc", "recalculate_rings call in add_rtt"):
            org = cm.operand_origins(a, rc[0], 1)
            R.require(bool(org) and all(o.kind == "arg" and o.local == 2 for o in org), "same-addr", rc[0].where(), "rings are recalculated for the address the sample was recorded for",
                      fail_msg="add_rtt recalculates rings for %s" % cm.origin_summary(org))
    # ring0: requires ring == 0
    r0 = [x for x in F.find(r"^klukai_types::members::Members::ring0::") if x.kind == "closure"]
    zero = False
    for x in r0:
        for bl in x.blocks:
            for s in bl["s"]:
                if s[0] == "A" and s[2][0] == "bin" and s[2][1] == "Eq":
                    ks = [op_const(o) for o in s[2][2:4]]
                    if any(k is not None and k.get("v") == 0 for k in ks):
                        zero = True
    R.require(zero, "ring0==0", r0[0].where() if r0 else "", "ring0 selects members whose ring equals 0", fail_msg="ring0 no longer tests ring == 0")
    # the bucket table: ring index = position of the bucket containing the average; ring 0 must be the LOWEST-latency bucket and
    # an average must fall in at most one bucket (ascending, non-overlapping)
    tbl = [v for k, v in F.consts.items() if k.endswith("members::RING_BUCKETS")]
    if R.anchor(tbl and tbl[0].get("arr2"), "RING_BUCKETS", "const RING_BUCKETS: [Range<u64>; N] (evaluated)"):
        a = tbl[0]["arr2"]
        ok = all(len(r) == 2 and r[0] < r[1] for r in a) and a[0][0] == 0 and all(a[i][1] <= a[i + 1][0] for i in range(len(a) - 1))
        R.require(ok, "buckets-ascending", "crates/klukai-types/src/members.rs", "RING_BUCKETS starts at 0 and its ranges are non-empty, ascending and non-overlapping (%s)" % a,
                  fail_msg="RING_BUCKETS %s: ring 0 is not the lowest-latency bucket, or buckets overlap / are empty" % a)


# ------------------------------------------------------------------------------------------------ notify
def notify(ctx):
    F = ctx.F
    R = ctx.rule("C18.notify", "K1", "SWIM MemberUp -> add_member, MemberDown -> remove_member; they have no other callers that bypass the notification's identity")
    b = cm.main_coroutine(F, "klukai_agent::agent::handlers::handle_notifications")
    if not R.anchor(b, "handle_notifications", "async fn handle_notifications"):
        return
    adds = [c for c in b.calls if (c.t.get("r") or c.f) == M + "::add_member"]
    rems = [c for c in b.calls if (c.t.get("r") or c.f) == M + "::remove_member"]
    if not (R.anchor(adds, "add", "add_member call") and R.anchor(rems, "remove", "remove_member call")):
        return
    # the notification enum switch: which variant leads where
    sws = [bb for bb in b.live_blocks() if b.term(bb)["t"] == "sw" and any(s[0] == "A" and s[2][0] == "disc" and "OwnedNotification" in b.ty(s[2][1][0]) for s in b.blocks[bb]["s"])]
    if R.anchor(sws, "notification-match", "match on OwnedNotification"):
        sw = max(sws, key=lambda x: len(b.term(x)["targets"]))
        t = b.term(sw)
        arms = {v: tgt for v, tgt in t["targets"]}
        # variant indices: MemberUp = 0, MemberDown = 1 in foca::OwnedNotification
        def arm_of(call):
            return sorted(v for v, tgt in arms.items() if call.bb in b.reachable(tgt, no_nodes=(sw,)))
        up, down = arm_of(adds[0]), arm_of(rems[0])
        R.require(len(up) == 1 and len(down) == 1 and up != down, "distinct-arms", b.where(sw), "add_member and remove_member sit in different notification arms (%s / %s)" % (up, down),
                  fail_msg="add_member/remove_member are not in distinct notification arms: %s / %s" % (up, down))
        # the argument is the notification's payload actor
        for c, nm in ((adds[0], "add"), (rems[0], "remove")):
            org = cm.operand_origins(b, c, 1)
            ok = bool(org) and all(o.kind == "call" and "recv" in o.call.f or o.kind in ("call", "yield") for o in org)
            R.require(ok, nm + "-arg", c.where(), "%s_member receives the notification's actor" % nm)
    # MemberUp is variant named MemberUp: use downcast names in places
    names = set()
    for bl in b.blocks:
        for s in bl["s"]:
            if s[0] == "A":
                from corrolint.facts import rvalue_places
                for p in rvalue_places(s[2]):
                    for x in p[1:]:
                        if isinstance(x, list) and x[0] == "d":
                            names.add(x[1])
    R.require({"MemberUp", "MemberDown"} <= names, "variants", b.where(), "both MemberUp and MemberDown payloads are destructured",
              fail_msg="handle_notifications no longer destructures MemberUp/MemberDown (%s)" % sorted(names))
    # which payload feeds which call
    def payload_variant(call):
        vs = set()
        for o in cm.operand_origins(b, call, 1):
            vs |= {n[3:] for n in o.path_names() if n.startswith("as:")}
        return vs
    R.require(payload_variant(adds[0]) <= {"MemberUp", "Ready", "Some"} and "MemberDown" not in payload_variant(adds[0]), "up->add", adds[0].where(), "add_member is fed from MemberUp")
    R.require("MemberUp" not in payload_variant(rems[0]), "down->remove", rems[0].where(), "remove_member is fed from MemberDown")
    callers_add = {F.root_fn(c.body).id for c in F.callers_of(M + "::add_member")}
    callers_rem = {F.root_fn(c.body).id for c in F.callers_of(M + "::remove_member")}
    R.require(callers_rem == {"klukai_agent::agent::handlers::handle_notifications"}, "remove-callers", "", "remove_member is only called from handle_notifications",
              fail_msg="remove_member has other callers: %s" % sorted(callers_rem))
    ctx.notes.append({"add_member_callers": sorted(callers_add)})


# ------------------------------------------------------------------------------------------------ identity
def identity(ctx):
    F = ctx.F
    R = ctx.rule("C18.identity", "K9", "Actor::win_addr_conflict is `self.ts > adversary.ts`; renew keeps id/addr/cluster and takes a fresh timestamp")
    w = F.one(r"^<klukai_types::actor::Actor as foca::identity::Identity>::win_addr_conflict$")
    if R.anchor(w, "win_addr_conflict", "fn Actor::win_addr_conflict"):
        cs = [c for c in w.calls if flow.is_compare(c)]
        if R.require(len(cs) == 1, "one-compare", w.where(), "one comparison", fail_msg="expected one comparison in win_addr_conflict, found %d" % len(cs)):
            c = cs[0]
            o0 = cm.operand_origins(w, c, 0)
            a_first = all(o.kind == "arg" and o.local == 1 for o in o0)
            tt = {o: flow.compare_value(c.name(), o, a_first) for o in ("<", "=", ">")}
            rt = flow.return_truth_table(w, [c.bb])
            ok = tt == {"<": False, "=": False, ">": True} and rt[(True,)] == {True} and rt[(False,)] == {False}
            R.require(ok, "strictly-newer-wins", c.where(), "wins exactly when self.ts > adversary.ts (%s)" % tt,
                      fail_msg="win_addr_conflict truth table over (self.ts ? adversary.ts) is %s, must be {<: False, =: False, >: True}" % tt)
            f = {x for o in cm.operand_origins(w, c, 0) | cm.operand_origins(w, c, 1) for x in o.field_names()}
            R.require("ts" in f, "compares-ts", c.where(), "compares the ts fields")
    rn = F.one(r"^<klukai_types::actor::Actor as foca::identity::Identity>::renew$")
    if R.anchor(rn, "renew", "fn Actor::renew"):
        aggs = cm.aggregates(rn, "klukai_types::actor::Actor")
        if R.anchor(aggs, "renew.ctor", "Actor{..} in renew"):
            bb, i, place, k, ops, line = aggs[0]
            m = {}
            for fn, op in zip(k["fields"], ops):
                p = op_place(op)
                m[fn] = cm.origin_summary(flow.origins(rn, p, at=(bb, i))) if p is not None else ["const"]
            keep = all(any(x.startswith("arg1") and x.endswith(fn) for x in m.get(fn, [])) for fn in ("id", "addr", "cluster_id"))
            fresh = not any(x.startswith("arg1") for x in m.get("ts", ["arg1"]))
            R.require(keep and fresh, "renew-fields", "%s:%d" % (rn.file, line), "renew keeps id/addr/cluster_id and takes a new ts (%s)" % m,
                      fail_msg="renew field provenance is %s" % m)
