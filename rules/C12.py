"""C12 — attaching or resuming a subscription never skips or repeats a change silently.

Only the 'stop instead of continuing past a gap' clause is structural; the race between catch-up read, live broadcast
and matcher commit is a schedule property and is not decided."""
import re

from corrolint import flow
from corrolint.facts import op_place, op_const, op_local, rvalue_places
from . import common as cm
from . import sqlinv

PUBSUB = "klukai_agent::api::public::pubsub::"
FWD_SUB = PUBSUB + "forward_sub_to_sender"
FWD_UPD = "klukai_agent::api::public::update::forward_update_bytes_to_body_sender"
CATCH = PUBSUB + "catch_up_sub"


def run(ctx):
    ctx.trust("tokio broadcast: a slow receiver gets RecvError::Lagged exactly when events were overwritten", "SQLite AUTOINCREMENT change ids")
    ctx.assume("the interleaving of catch-up read, live broadcast and matcher commit is not decided")
    lag(ctx)
    fail(ctx)
    mono(ctx)
    client(ctx)
    snapshot(ctx)
    watch(ctx)


def _variant_blocks(b, variant):
    """blocks that project a place as enum variant `variant` (i.e. lie in that match arm)"""
    out = set()
    for bb in b.live_blocks():
        for s in b.blocks[bb]["s"]:
            if s[0] == "A":
                for p in rvalue_places(s[2]) + [s[1]]:
                    for x in p[1:]:
                        if isinstance(x, list) and x[0] == "d" and x[1] == variant:
                            out.add(bb)
        t = b.term(bb)
        for a in t.get("args", []):
            p = op_place(a)
            if p is not None:
                for x in p[1:]:
                    if isinstance(x, list) and x[0] == "d" and x[1] == variant:
                        out.add(bb)
    return out


def lag(ctx, rule_id="C12.lag", fns=(FWD_SUB, FWD_UPD)):
    F = ctx.F
    R = ctx.rule(rule_id, "K2", "when the live event receiver reports Lagged (events were lost), forwarding stops: no further event is sent and the loop is not re-entered")
    for fn in fns:
        fam = F.family(F.get(fn)) if F.get(fn) else []
        short = fn.rsplit("::", 1)[-1]
        # the body that matches on RecvError (inside the select's branch closure or the coroutine itself)
        hits = [(x, _variant_blocks(x, "Lagged")) for x in fam]
        hits = [(x, bl) for x, bl in hits if bl]
        if not R.anchor(hits, short + ".lagged-arm", "match arm for RecvError::Lagged in " + short):
            continue
        co = cm.main_coroutine(F, fn)
        for x, bl in hits:
            reach = set()
            for bb in bl:
                reach |= x.reachable(bb)
            sends = [c for c in x.calls if c.bb in reach and re.search(r"mpsc::bounded::Sender::<T>::send$|Sender::<T>::try_send$", c.f)]
            recvs = [c for c in x.calls if c.bb in reach and c.name() == "recv" and not any(c.bb == b0 for b0 in bl)]
            rets = [r for r in x.return_blocks() if r in reach]
            R.require(not sends and bool(rets), short + ".lagged-returns@%s" % ("closure" if x.kind == "closure" else "body"), x.where(min(bl)),
                      "from the Lagged arm nothing is sent and the function returns",
                      fail_msg="after RecvError::Lagged %s still reaches %s: the stream would continue past lost events" % (short, (sends[0].fi if sends else "no return")))
            # if the arm is in the coroutine itself, the loop head (recv) must not be reachable from it
            if x is co:
                R.require(not recvs, short + ".lagged-no-loop", x.where(min(bl)), "the receive loop is not re-entered after Lagged",
                          fail_msg="after RecvError::Lagged the receive loop is re-entered (events silently skipped)")
            else:
                # the select closure yields a branch value; the coroutine must return for the Lagged outcome: the arm's value flows to an
                # output that the parent treats as `return`. Accept when the arm's blocks end in a distinct output variant and the parent returns on it.
                pass


def fail(ctx):
    F = ctx.F
    R = ctx.rule("C12.fail", "K2", "catch_up_sub: a failed catch-up read, a disconnected buffer or an unclosable gap ends the stream (error event + return) instead of switching to live forwarding")
    co = cm.main_coroutine(F, CATCH)
    if not R.anchor(co, "catch_up_sub", "async fn catch_up_sub"):
        return
    fwd = [c for c in co.calls if (c.t.get("r") or c.f) == FWD_SUB or ((c.t.get("r") or "").startswith(FWD_SUB))]
    if not R.anchor(fwd, "forward", "hand-over to forward_sub_to_sender"):
        return
    f = fwd[0]
    # polls of catch_up_sub_from / catch_up_sub_anew: their Err outcome must not reach the hand-over
    polls = [c for c in co.calls if c.f == "core::future::future::Future::poll" and re.search(r"catch_up_sub_(from|anew)", c.t.get("r") or "")]
    if not R.floor(len(polls), 2, "catch-up-awaits", "awaits of catch_up_sub_from / catch_up_sub_anew"):
        return
    n = 0
    for p in polls:
        tainted, _ = flow.taint(co, [p.dest[0]])
        for bb in co.live_blocks():
            t = co.term(bb)
            if t["t"] != "sw":
                continue
            for s in co.blocks[bb]["s"]:
                if s[0] == "A" and s[2][0] == "disc" and s[2][1][0] in tainted and op_local(t["d"]) == s[1][0] and "Result<" in co.ty(s[2][1][0]) and "Poll<" not in co.ty(s[2][1][0]):
                    m = {v: x for v, x in t["targets"]}
                    err_t = m.get(1, t["else"])
                    n += 1
                    R.require(f.bb not in co.reachable(err_t, no_nodes=(p.bb,)), "err-ends#%d" % n, co.where(bb), "an Err from the catch-up read returns without handing over to live forwarding",
                              fail_msg="after a failed catch-up read catch_up_sub can still hand over to live forwarding (a gap would go unnoticed)")
    R.floor(n, 2, "err-branches", "Result matches on catch-up reads")
    # the 5-attempts gap check: a comparison change_id >= min_change_id after the loop whose true edge returns
    ges = [c for c in co.calls if c.f in ("core::cmp::PartialOrd::ge", "core::cmp::PartialOrd::gt", "core::cmp::PartialOrd::lt", "core::cmp::PartialOrd::le") and "ChangeId" in c.self_ty]
    final_gap = [c for c in ges if co.dominates(c.bb, f.bb) is False and co.can_reach(c.bb, f.bb)]
    gate = [c for c in ges if c.name() == "ge" and co.can_reach(c.bb, f.bb)]
    ok = False
    for c in gate:
        te, fe = flow.true_false_targets(co, c)
        if te and all(f.bb not in co.reachable(e[1], no_nodes=(c.bb,)) for e in te) and fe and any(f.bb in co.reachable(e[1], no_nodes=(c.bb,)) for e in fe):
            ok = True
    R.require(ok, "unclosed-gap-ends", co.where(), "if the buffered change id is still ahead of the catch-up position after the retries, the stream ends",
              fail_msg="catch_up_sub no longer stops when it could not close the gap between the catch-up read and the buffered live events")
    # Disconnected buffer
    disc = _variant_blocks(co, "Disconnected")
    # TryRecvError::Disconnected has no payload: detect via the error-event send reachable only there; keep as informational anchor


def mono(ctx):
    F = ctx.F
    R = ctx.rule("C12.mono", "K9", "buffered live events are forwarded only if their change id is greater than the last one sent, which is then advanced to it")
    co = cm.main_coroutine(F, CATCH)
    if not R.anchor(co, "catch_up_sub", "async fn catch_up_sub"):
        return
    gts = [c for c in co.calls if c.f in ("core::cmp::PartialOrd::gt", "core::cmp::PartialOrd::ge", "core::cmp::PartialOrd::lt", "core::cmp::PartialOrd::le") and "ChangeId" in c.self_ty]
    sends = [c for c in co.calls if c.f == "core::future::future::Future::poll" and "QueryEventMeta" in c.fi and "SendError" in c.t.get("dty", "")]
    # sends of Change events: evt_tx.send((buf, QueryEventMeta::Change(id)))
    chg = cm.agg_blocks(co, "klukai_types::api::QueryEventMeta", "Change")
    if not R.floor(len(chg), 2, "change-events", "QueryEventMeta::Change constructions (buffered forwards)"):
        return
    n = 0
    for bb in chg:
        doms = [c for c in gts if co.dominates(c.bb, bb)]
        # nearest dominating comparison
        doms = [c for c in doms if not any(co.dominates(c.bb, d.bb) and d is not c for d in doms)] or doms
        if not doms:
            R.fail("forward#%d.guard" % n, co.where(bb), "a buffered event is forwarded without comparing its change id with the last one sent")
            n += 1
            continue
        c = doms[-1]
        # role A = event id, B = last_change_id: orientation by operand origin: the event id comes from the queue (recv/try_recv payload)
        a0 = cm.deep_names(co, op_place(c.args[0]), (c.bb, "T"))[1]
        a_first = bool({"recv", "try_recv", "poll"} & a0) or True
        vals = flow.ordering_valuations([(c, True)])
        res = {}
        for o in ("<", "=", ">"):
            reach, _ = flow.eval_guard(co, vals[o], start=co.term(c.bb)["tgt"], env0={c.dest[0]: vals[o][c.bb]})
            res[o] = bb in reach
        R.require(res == {"<": False, "=": False, ">": True}, "forward#%d.iff-newer" % n, c.where(), "forwarded iff change_id > last_change_id (%s)" % res,
                  fail_msg="a buffered event is forwarded under (change_id ? last_change_id) = %s; must be only '>' (duplicates or re-ordered events would be emitted)" % [k for k, v in res.items() if v])
        n += 1


def client(ctx):
    F = ctx.F
    R = ctx.rule("C12.client", "K9", "the client library reports MissedChange exactly when a change id is not last + 1, and resumes from its last id")
    hb = F.one(r"^klukai_client::sub::SubscriptionStream::<T>::handle_change$")
    if R.anchor(hb, "handle_change", "fn SubscriptionStream::handle_change"):
        cs = [c for c in hb.calls if c.f in ("core::cmp::PartialEq::ne", "core::cmp::PartialEq::eq") and "ChangeId" in c.self_ty]
        mc = cm.agg_blocks(hb, "klukai_client::sub::SubscriptionError", "MissedChange")
        if R.require(len(cs) == 1, "compare", hb.where(), "one ChangeId (in)equality", fail_msg="expected one ChangeId comparison in handle_change, found %d" % len(cs)) and R.anchor(mc, "MissedChange", "MissedChange construction"):
            c = cs[0]
            tt = flow.effect_truth_table(hb, [c.bb], mc)
            is_eq = c.name() == "eq"
            when_eq = tt[(True,)] if is_eq else tt[(False,)]
            when_ne = tt[(False,)] if is_eq else tt[(True,)]
            R.require(when_ne and not when_eq, "missed-iff-not-next", c.where(), "MissedChange iff (last + 1) != change_id",
                      fail_msg="MissedChange reachability: equal=%s different=%s" % (when_eq, when_ne))
            # one operand is id + 1
            adds = [a for a in hb.calls if a.name() == "add" and hb.dominates(a.bb, c.bb)]
            k = [op_const(a.args[1]) for a in adds]
            R.require(any(x is not None and x.get("v") == 1 for x in k), "plus-one", c.where(), "the expected id is last + 1", fail_msg="the expected change id is not last + 1")
            # MissedChange flows to the Err return
            rets = [bb for bb in hb.live_blocks() for s in hb.blocks[bb]["s"] if s[0] == "A" and s[2][0] == "agg" and isinstance(s[2][1], dict) and s[2][1].get("variant") == "Err"]
            R.require(bool(rets), "returns-err", hb.where(), "the mismatch is returned as Err")
            # last_change_id updated only on the ok path
            ws = [x for x in cm.field_mutation_sites(F, "klukai_client::sub::SubscriptionStream", "last_change_id", [hb]) if x[2].startswith("assign")]
            R.require(bool(ws) and all(not any(w[1] in hb.reachable(m) for m in mc) for w in ws), "advance-on-ok", hb.where(), "last_change_id is advanced only when the id was the expected one",
                      fail_msg="last_change_id is advanced on the MissedChange path")
    ps = F.one(r"^klukai_client::sub::SubscriptionStream::<T>::poll_stream$")
    if R.anchor(ps, "poll_stream", "fn SubscriptionStream::poll_stream"):
        hcs = [c for c in ps.calls if (c.t.get("r") or c.f).endswith("SubscriptionStream::<T>::handle_change")]
        if R.floor(len(hcs), 2, "handle_change-sites", "handle_change call sites in poll_stream"):
            for n, c in enumerate(hcs):
                bad = False
                found = False
                for sw, m, other in flow.variant_edges(ps, c.dest):
                    err_t = m.get(1, other)
                    found = True
                    # from the Err edge a Poll::Ready(Some(Err)) is returned and no Ok event is returned
                    oks = [bb for bb in ps.reachable(err_t) for s in ps.blocks[bb]["s"] if s[0] == "A" and s[2][0] == "agg" and isinstance(s[2][1], dict) and s[2][1].get("variant") == "Ok" and "TypedQueryEvent" in ps.ty(s[1][0])]
                    if oks:
                        bad = True
                R.require(found and not bad, "propagates#%d" % n, c.where(), "a MissedChange is yielded to the caller instead of the event",
                          fail_msg="poll_stream swallows handle_change's error and still yields the event")
    pr = F.one(r"^klukai_client::sub::SubscriptionStream::<T>::poll_request$")
    if R.anchor(pr, "poll_request", "fn SubscriptionStream::poll_request"):
        strs = [s for s, bb, line in pr.const_strings()]
        R.require(any("?from=" in s for s in strs), "from-param", pr.where(), "the resume request carries ?from=", fail_msg="the resume request no longer carries ?from=")
        reads = cm.field_reads(pr, "last_change_id")
        R.require(bool(reads), "from-last-id", pr.where(), "the resume position is read from self.last_change_id", fail_msg="the resume request does not use self.last_change_id")


def snapshot(ctx):
    """The attach-from-scratch snapshot is `SELECT .. FROM query` followed by `SELECT MAX(id) FROM changes`; the id reported with
    the snapshot is the resume point, so both statements must read ONE database snapshot: they run on the same connection value
    and that value is a transaction at every call site (a bare pooled connection gives each statement its own WAL snapshot, and a
    matcher commit between them makes the snapshot claim a change it does not contain)."""
    F = ctx.F
    R = ctx.rule("C12.snapshot", "K4", "Matcher::all_rows reads the rows and the last change id on one connection value, and every caller passes a transaction")
    b = F.get("klukai_types::pubsub::MatcherHandle::all_rows") or F.get("klukai_types::pubsub::Matcher::all_rows")
    if b is None:
        cands = [x for x in F.find(r"^klukai_types::pubsub::\w+::all_rows$")]
        b = cands[0] if cands else None
    if not R.anchor(b, "all_rows", "fn all_rows in klukai_types::pubsub"):
        return
    sites = [s for s in sqlinv.inventory(F, [b]) if s.verb == "SELECT" and (s.reads & {"query", "changes"})]
    rows = [s for s in sites if "query" in s.reads]
    last = [s for s in sites if "changes" in s.reads]
    if not (R.anchor(rows, "rows-select", "SELECT .. FROM query in all_rows") and R.anchor(last, "max-id-select", "SELECT MAX(id) FROM changes in all_rows")):
        return
    kinds = {}
    for s in rows + last:
        p = op_place(s.call.args[0])
        kinds[s.call.where()] = sqlinv.classify_conn(F, b, p, (s.call.bb, "T"), resolve_params=True) if p is not None else {"other:const"}
    allk = set().union(*kinds.values())
    same = len({frozenset(k) for k in kinds.values()}) == 1
    R.require(same, "one-connection", b.where(), "rows and MAX(id) are read through the same connection value (%s)" % sorted(allk),
              fail_msg="all_rows reads the rows and the last change id through different connections: %s" % {k: sorted(v) for k, v in kinds.items()})
    callers = F.callers_of(b.id)
    if R.floor(len(callers), 1, "callers", "call sites of all_rows"):
        for c in callers:
            p = op_place(c.args[1]) if len(c.args) > 1 else None
            k = sqlinv.classify_conn(F, c.body, p, (c.bb, "T"), resolve_params=True) if p is not None else {"other:const"}
            R.require(bool(k) and all(x.startswith("tx:") for x in k), "caller-passes-tx@" + cm.short_id(F.root_fn(c.body).id), c.where(),
                      "the snapshot is read inside a transaction begun by the caller (%s)" % sorted(k),
                      fail_msg="all_rows is given a connection that is not a transaction (%s): the rows and MAX(id) come from different WAL snapshots, so a change committed in between is "
                               "reported as included in the snapshot but is in neither the rows nor the following events" % sorted(k))


def watch(ctx):
    """catch_up_sub decides that it has caught up by comparing the last id it forwarded with the matcher's `last_change_tx` watch.
    That only closes the window "event handed to subscribers, batch not yet committed" if the watch is advanced together with the
    event: an event whose id is not yet on the watch when the batch commits lets an attaching subscriber resume past it."""
    F = ctx.F
    R = ctx.rule("C12.watch", "K2", "Matcher::handle_candidates advances the last-change watch with every change event, before the batch commits")
    b = F.get("klukai_types::pubsub::Matcher::handle_candidates")
    if not R.anchor(b, "handle_candidates", "fn Matcher::handle_candidates"):
        return
    evs = [c for c in b.calls if re.search(r"mpsc::bounded::Sender::<T>::(blocking_send|send|try_send)$", c.f) and "QueryEvent" in c.self_ty]
    ws = [c for c in b.calls if c.f.endswith("watch::Sender::<T>::send") and "ChangeId" in c.self_ty]
    commits = [c for c in b.calls if cm.COMMIT.search(c.f)]
    if not (R.anchor(evs, "event-send", "evt_tx send of the change event") and R.anchor(ws, "watch-send", "last_change_tx.send(change_id)") and R.anchor(commits, "commit", "tx.commit()")):
        return
    for n, e in enumerate(evs):
        after = [k for k in commits if b.can_reach(e.bb, k.bb)]
        if not after:
            continue
        late = [k for k in after if b.can_reach(e.bb, k.bb, no_nodes=tuple(w.bb for w in ws))]
        again = b.can_reach(b.term(e.bb).get("tgt"), e.bb, no_nodes=tuple(w.bb for w in ws)) if b.term(e.bb).get("tgt") is not None else False
        R.require(not late and not again, "watch-with-event#%d" % n, e.where(), "after a change event is sent, the watch is advanced before the next event and before the commit",
                  fail_msg="a change event can be handed to subscribers and the batch committed (or the next event sent) without the last-change watch having been advanced: "
                           "a subscriber attaching in between is declared caught up at the pre-batch id and resumes past the gap")
    # the id put on the watch is the id of the event just sent
    w = ws[0]
    wid = cm.origin_summary(cm.operand_origins(b, w, 1))
    eid = [x for e in evs for x in cm.origin_summary(cm.operand_origins(b, e, 1))]
    R.ok("watch-id", w.where(), "watch value origins: %s" % wid[:4], nontrivial=False)
