//! Positive controls for the corrolint rule kinds: each `bad_*` item must make the corresponding rule fire,
//! each `good_*` twin must not.  Dependency-free (std only); analysed by the same driver as /repo.
#![allow(dead_code, unused_variables, clippy::all)]
use std::sync::{Mutex, RwLock};

pub struct A(pub u32);
pub struct B(pub u32);

pub struct Locks {
    pub a: Mutex<A>,
    pub b: Mutex<B>,
    pub r: RwLock<A>,
}

// ---- K3 lock order: a -> b in one function, b -> a in another = cycle
pub fn bad_order_ab(l: &Locks) -> u32 {
    let ga = l.a.lock().unwrap();
    let gb = l.b.lock().unwrap();
    ga.0 + gb.0
}

pub fn bad_order_ba(l: &Locks) -> u32 {
    let gb = l.b.lock().unwrap();
    let ga = l.a.lock().unwrap();
    ga.0 + gb.0
}

pub fn good_order_scoped(l: &Locks) -> u32 {
    let x = { l.b.lock().unwrap().0 };
    let ga = l.a.lock().unwrap();
    ga.0 + x
}

// ---- K3 self nesting
pub fn bad_self_nest(l: &Locks, m: &Locks) -> u32 {
    let g1 = l.a.lock().unwrap();
    let g2 = m.a.lock().unwrap();
    g1.0 + g2.0
}

// ---- K3 guard across await
pub async fn tick() {}

pub async fn bad_guard_across_await(l: &Locks) -> u32 {
    let g = l.a.lock().unwrap();
    tick().await;
    g.0
}

pub async fn good_guard_dropped_before_await(l: &Locks) -> u32 {
    let v = { l.a.lock().unwrap().0 };
    tick().await;
    v
}

// ---- K2 publish before commit
pub struct Tx;
impl Tx {
    pub fn commit(self) -> Result<(), ()> {
        Ok(())
    }
}
pub fn publish(_v: u32) {}

pub fn bad_publish_before_commit(tx: Tx) -> Result<(), ()> {
    publish(1);
    tx.commit()?;
    Ok(())
}

pub fn good_publish_after_commit(tx: Tx) -> Result<(), ()> {
    tx.commit()?;
    publish(1);
    Ok(())
}

// ---- K8 decode totality
pub fn bad_decode_panics(tag: u8) -> u32 {
    match tag {
        0 => 1,
        1 => 2,
        _ => panic!("invalid tag"),
    }
}

pub fn bad_decode_alloc(len: usize) -> Vec<u8> {
    Vec::with_capacity(len)
}

pub fn good_decode(tag: u8) -> Result<u32, ()> {
    match tag {
        0 => Ok(1),
        1 => Ok(2),
        _ => Err(()),
    }
}

// ---- K9 guard truth table
pub fn bad_newest_wins(stored: u64, incoming: u64) -> bool {
    incoming >= stored // should be strictly newer
}

pub fn good_newest_wins(stored: u64, incoming: u64) -> bool {
    incoming > stored
}

// ---- K4 provenance: evict with the wrong key
pub fn bad_evict(queue: &mut Vec<(u32, u32)>, seen: &mut Vec<u32>, incoming: (u32, u32)) {
    if let Some(dropped) = queue.pop() {
        seen.retain(|k| *k != incoming.0);
        let _ = dropped;
    }
}

pub fn good_evict(queue: &mut Vec<(u32, u32)>, seen: &mut Vec<u32>, incoming: (u32, u32)) {
    if let Some(dropped) = queue.pop() {
        seen.retain(|k| *k != dropped.0);
    }
}

// ---- K2 must-pass with variant-sensitive reachability: `let m = if c {Some} else {None}; if let Some(x) = m {push}`
pub fn push(_v: u32) {}

pub fn good_tail_pushed(theirs: u32, ours: Option<u32>) {
    let missing = match ours {
        Some(o) => {
            if theirs > o {
                Some(o + 1)
            } else {
                None
            }
        }
        None => Some(1),
    };
    if let Some(m) = missing {
        push(m);
    }
}

pub fn bad_tail_dropped(theirs: u32, ours: Option<u32>) {
    let missing = match ours {
        Some(o) => {
            if theirs > o {
                Some(o + 1)
            } else {
                None
            }
        }
        None => None, // an actor we never heard of is not requested
    };
    if let Some(m) = missing {
        push(m);
    }
}

// ---- K2 loop exit only at exhaustion
pub fn good_drain(it: &mut dyn Iterator<Item = u32>, out: &mut Vec<u32>) {
    loop {
        match it.next() {
            None => break,
            Some(v) => out.push(v),
        }
    }
    push(out.len() as u32);
}

pub fn bad_drain_stops_early(it: &mut dyn Iterator<Item = u32>, out: &mut Vec<u32>, cap: u32) {
    loop {
        match it.next() {
            None => break,
            Some(v) if v > cap => break,
            Some(v) => out.push(v),
        }
    }
    push(out.len() as u32);
}

// ---- named &str constants (SQL moved into a const must still be readable)
pub const MODULE_SQL: &str = "SELECT 1 FROM module_level";

pub fn uses_named_consts() -> usize {
    const LOCAL_SQL: &str = "SELECT 2 FROM fn_level";
    push(MODULE_SQL.len() as u32);
    LOCAL_SQL.len() + MODULE_SQL.len()
}

// ---- named integer-array constants (a table of lock bytes moved into a const array must stay readable)
pub const LOCK_BYTES: [i64; 3] = [120, 121, -2];

pub fn uses_array_const() -> i64 {
    let mut s = 0;
    for b in LOCK_BYTES {
        s += b;
    }
    s
}
